"""Which generator features are excluded by construction for a property: the triggers of every OPEN known finding of the
property itself and of the properties it depends on (their clean domain is a precondition)."""
from __future__ import annotations

import os

from .runner import load_known_findings


def excluded(*props: str, extra: set[str] | frozenset[str] = frozenset()) -> set[str]:
    if os.environ.get("VERIF_DIRTY") == "1":
        return set(extra)
    out = set(extra)
    for p in set(props):
        for k in load_known_findings(p):
            if k.get("status") == "open":
                out.update(k.get("exclude_features", []))
    return out
