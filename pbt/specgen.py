"""Hypothesis strategies that CONSTRUCT OpenAPI 3.0 documents (plain JSON dicts) + generation configurations.

A case is {"spec": <openapi dict>, "cfg": {"out": dotted pkg, "core": dotted pkg|None, "naming": .., "fmt": "json"|"yaml"}}.
Every choice that can hit a *listed known finding* goes through `Gate.pick`: the option is drawn from the full,
unrestricted choice list; if its feature is currently excluded (its finding is open and the property asked for
the clean domain) the draw is remapped to a benign option and counted in `gate.excluded` — exclusion by
construction, with counts, never by filtering.

Soundness of the domain: every $ref resolves, every path variable is declared exactly once as a required path
parameter (unless the feature says otherwise), media maps are well-formed, discriminator property names exist and are
required in every variant, enum values have the declared type.
"""

from __future__ import annotations

import re
from collections import Counter
from typing import Any

from hypothesis import strategies as st

# ---------------------------------------------------------------------------------------------

SCHEMA_NAMES = [
    "Pet", "User", "UserGroup", "UserGroupItem", "Node", "NodeItem", "Children", "Order", "OrderItem", "Tag",
    "ErrorBody", "Item", "Widget", "Account", "Cat2Dog", "LineEntry", "Page", "Event", "Shape", "Circle", "Square",
]
HOSTILE_SCHEMA_NAMES = ["pet_owner", "HTTPResponse", "foo-bar", "Foo.Bar", "date", "Enum", "Field"]
RESERVED_SCHEMA_NAMES = ["List", "Any", "Model", "Optional", "Union", "Dict", "data", "type", "UUID", "Self"]  # shadow typing imports / reserved-name suffixing
SUFFIXED_SCHEMA_NAMES = ["Id", "Type", "Email", "Json", "Copy"]
EXCEPTION_LIKE_SCHEMA_NAMES = ["NotFoundError", "ConflictError", "BadRequestError", "UnprocessableEntityError", "InternalServerError", "HTTPError"]  # names of the core's exception classes / status aliases  # class name gets a reserved-name suffix (Id_), nothing is shadowed
PROP_NAMES = ["id", "name", "value", "count", "tags", "createdAt", "created_at", "created_at_2", "updated", "userId", "user_id", "kind", "status",
              "parent", "children", "next", "owner", "label", "price", "active", "notes", "ref", "size", "code"]
HOSTILE_PROP_NAMES = ["user-id", "class", "from", "type", "data", "items", "self", "1st", "Ünï",
                      "global", "in", "model", "json", "X-Id", "with space", "uuid", "enum", "str", "None"]
DOTTED_PROP_NAMES = ["a.b", "meta.info"]  # promoted inline array/union names derived from them do not match their module
SHADOWING_PROP_NAMES = ["field", "dataclass", "date", "datetime", "List", "Any", "Optional", "UUID"]  # rebinding names the model module itself uses in the class body
COLLISION_CLUSTERS = [["createdAt", "created_at", "created_at_2"], ["userId", "user_id", "user-id", "user_id_2"],
                      ["addressLine", "address_line", "address_line_2", "address-line-2"], ["X-Id", "x_id", "xId"]]
PARAM_NAMES = ["limit", "offset", "q", "filter", "sort", "page", "X-Request-Id", "include", "since", "ids", "verbose", "lang"]
HOSTILE_PARAM_NAMES = ["user-id", "class", "from", "type", "id", "X-Trace-Id", "filter[name]", "page.size", "self", "in"]
BODY_ARG_PARAM_NAMES = ["body", "files", "form_data"]  # equal to the names the generator gives the request-body argument
TAGS = ["pets", "users", "orders", "admin", "Store", "data-sources", "Reports"]
VARIANT_TAGS = ["Pets", "PETS", "data_sources", "DataSources", "Default", "store", "USERS"]  # case/punctuation variants of TAGS / default
HOSTILE_TAGS = ["v1/alpha", "über", "class", "models", "a b", "1st", "core", "endpoints"]
CLIENT_ATTR_TAGS = ["request", "close", "transport", "config"]  # equal to attributes/methods of the generated APIClient
PATH_TEMPLATES = [
    ("/pets", []), ("/pets/{petId}", ["petId"]), ("/users", []), ("/users/{user_id}", ["user_id"]),
    ("/users/{user_id}/orders/{orderId}", ["user_id", "orderId"]), ("/orders", []), ("/orders/{id}", ["id"]),
    ("/a-b/{item-id}", ["item-id"]), ("/v1/things", []), ("/v1/things/{thingId}/parts", ["thingId"]), ("/", []),
    ("/search", []), ("/events/stream", []), ("/files/{name}", ["name"]),
]
METHODS = ["get", "post", "put", "patch", "delete"]


class Gate:
    """Feature gate with exclusion counting."""

    def __init__(self, exclude: set[str] | frozenset[str] = frozenset()):
        self.exclude = set(exclude)
        self.excluded: Counter = Counter()
        self.used: Counter = Counter()

    def pick(self, draw, options: list[tuple[str | None, Any]], fallback: Any = None, weights: list[int] | None = None):
        """options: [(feature or None, value)]. Draws uniformly (or by repetition weights); remaps excluded features."""
        pool = []
        for i, o in enumerate(options):
            pool.extend([o] * (weights[i] if weights else 1))
        feat, val = draw(st.sampled_from(pool))
        if feat is not None and feat in self.exclude:
            self.excluded[feat] += 1
            if fallback is not None:
                return fallback
            for f2, v2 in options:
                if f2 is None or f2 not in self.exclude:
                    return v2
            raise RuntimeError(f"no allowed option for {feat}")
        if feat is not None:
            self.used[feat] += 1
        return val

    def flag(self, draw, feature: str, p_num: int = 1, p_den: int = 4) -> bool:
        """True with probability p_num/p_den, unless the feature is excluded (then counted)."""
        hit = draw(st.integers(0, p_den - 1)) < p_num
        if hit and feature in self.exclude:
            self.excluded[feature] += 1
            return False
        if hit:
            self.used[feature] += 1
        return hit


def _py(name: str) -> str:
    """Python identifier the generator derives for a parameter (used only to steer the DOMAIN, never as an oracle)."""
    from pyopenapi_gen.core.utils import NameSanitizer

    return NameSanitizer.sanitize_method_name(name)


def _reserved_name(name: str) -> bool:
    import keyword

    from pyopenapi_gen.core.utils import NameSanitizer

    low = re.sub(r"[^0-9a-zA-Z]", "", name).lower()
    return (low in NameSanitizer.RESERVED_NAMES or keyword.iskeyword(low)
            or NameSanitizer.sanitize_class_name(name).endswith("_"))  # class name gets the reserved/keyword suffix


def _promotable(node: dict) -> bool:
    """Inline node for which the generator may synthesise a named type: everything except a $ref or a plain scalar."""
    if not isinstance(node, dict) or "$ref" in node:
        return False
    return not (node.get("type") in ("string", "integer", "number", "boolean") and "enum" not in node)


def _cls(name: str) -> str:
    from pyopenapi_gen.core.utils import NameSanitizer

    return NameSanitizer.sanitize_class_name(name)


def _ref(name: str) -> dict:
    return {"$ref": f"#/components/schemas/{name}"}


# ---------------------------------------------------------------------------------------------
# schema nodes


def _primitive(draw, g: Gate) -> dict:
    kind = g.pick(draw, [
        (None, "string"), (None, "integer"), (None, "number"), (None, "boolean"),
        (None, "string"), ("fmt_datetime", "date-time"), ("fmt_date", "date"), ("fmt_uuid", "uuid"),
        ("fmt_byte", "byte"), ("fmt_binary_prop", "binary"), ("str_enum", "enum"), ("int_enum", "int-enum"),
        ("fmt_other", "email"), ("int_fmt", "int64"), ("num_fmt", "double"),
    ], fallback="string")
    if kind in ("string", "integer", "number", "boolean"):
        node: dict[str, Any] = {"type": kind}
    elif kind in ("date-time", "date", "uuid", "byte", "binary", "email"):
        node = {"type": "string", "format": kind}
    elif kind == "int64":
        node = {"type": "integer", "format": draw(st.sampled_from(["int32", "int64"]))}
    elif kind == "double":
        node = {"type": "number", "format": draw(st.sampled_from(["float", "double"]))}
    elif kind == "enum":
        vals = draw(st.lists(st.sampled_from(["active", "inactive", "pending", "in-progress", "A", "b", "x y", "done"]),
                             min_size=1, max_size=4, unique=True))
        node = {"type": "string", "enum": vals}
    else:
        vals = draw(st.lists(st.integers(-3, 20), min_size=1, max_size=4, unique=True))
        node = {"type": "integer", "enum": vals}
    if g.flag(draw, "nullable", 1, 6):
        node["nullable"] = True
    if node.get("type") in ("string", "integer", "boolean") and "enum" not in node and "format" not in node and g.flag(draw, "default_value", 1, 8):
        node["default"] = {"string": "dflt", "integer": 7, "boolean": True}[node["type"]]
    if g.flag(draw, "description", 1, 5):
        node["description"] = draw(st.sampled_from(["A value.", "The thing", "Some text, with punctuation: yes."]))
    return node


def _node(draw, g: Gate, names: list[str], depth: int, self_name: str | None, later: list[str]) -> dict:
    """A property-position schema node. `names` = all declared schema names (refs may point anywhere => cycles)."""
    if depth <= 0 or not names:
        return _primitive(draw, g)
    kind = g.pick(draw, [
        (None, "prim"), (None, "prim"), (None, "prim"), (None, "ref"), (None, "ref"), (None, "array_prim"), (None, "array_ref"),
        ("map", "map_prim"), ("map", "map_ref"), ("map_any", "map_any"), ("inline_object", "inline_object"),
        ("array_inline_object", "array_inline_object"), ("inline_union", "inline_union"), ("nested_array", "nested_array"),
    ], fallback="prim")
    if kind == "prim":
        return _primitive(draw, g)
    if kind in ("ref", "array_ref", "map_ref"):
        target = draw(st.sampled_from(names))
        node = _ref(target)
        if kind == "array_ref":
            return {"type": "array", "items": node}
        if kind == "map_ref":
            return {"type": "object", "additionalProperties": node}
        return node
    if kind == "array_prim":
        node = {"type": "array", "items": _primitive(draw, g)}
        if g.flag(draw, "nullable_array", 1, 4):
            node["nullable"] = True  # the array itself may be null (its items may be nullable as well)
        return node
    if kind == "map_prim":
        return {"type": "object", "additionalProperties": _primitive(draw, g)}
    if kind == "map_any":
        return {"type": "object", "additionalProperties": True}
    if kind == "inline_object":
        return _object(draw, g, names, depth - 1, self_name, later, max_props=3)
    if kind == "array_inline_object":
        return {"type": "array", "items": _object(draw, g, names, depth - 1, self_name, later, max_props=2)}
    if kind == "nested_array":
        return {"type": "array", "items": {"type": "array", "items": _primitive(draw, g)}}
    if kind == "inline_union":
        k = draw(st.sampled_from(["oneOf", "anyOf"]))
        variants = [_ref(t) for t in draw(st.lists(st.sampled_from(names), min_size=2, max_size=3, unique=True))] if len(names) >= 2 else [_primitive(draw, g), _primitive(draw, g)]
        return {k: variants}
    raise AssertionError(kind)


def _prop_name(draw, g: Gate) -> str:
    return g.pick(draw, [(None, n) for n in PROP_NAMES] + [("hostile_prop_name", n) for n in HOSTILE_PROP_NAMES]
                  + [("shadowing_prop_name", n) for n in SHADOWING_PROP_NAMES] + [("dotted_prop_name", n) for n in DOTTED_PROP_NAMES],
                  fallback=draw(st.sampled_from(PROP_NAMES)),
                  weights=[3] * len(PROP_NAMES) + [1] * len(HOSTILE_PROP_NAMES) + [1] * len(SHADOWING_PROP_NAMES) + [1] * len(DOTTED_PROP_NAMES))


def _object(draw, g: Gate, names: list[str], depth: int, self_name: str | None, later: list[str], max_props: int = 5) -> dict:
    n = draw(st.integers(0 if g.flag(draw, "empty_object", 1, 10) else 1, max_props))
    props: dict[str, Any] = {}
    for _ in range(n):
        pn = _prop_name(draw, g)
        if pn in props:
            continue
        node = _node(draw, g, names, depth, self_name, later)
        declared_cls = {_cls(x) for x in names}
        synth_clash = _cls(pn) in declared_cls or (self_name is not None and _cls(self_name) + _cls(pn) in declared_cls)  # Pet.owner vs schema pet_owner
        # User.userId / Tag.tags: the synthesised name <Schema><Prop> collapses to the bare <Prop> (UserId, Tags), which any same-named
        # inline property of another schema is then typed with (thorough-tier instances of C03-F04)
        synth_clash = synth_clash or (self_name is not None and _cls(pn).lower().startswith(_cls(self_name).lower()))
        if _promotable(node) and (any(_py(pn) == _py(q) for q in props) or synth_clash):
            # the synthesised type name would collide with a sibling's / a declared schema's: known findings C03-F03/F04
            feat = "colliding_props_promotable" if any(_py(pn) == _py(q) for q in props) else "prop_class_equals_schema_name"
            if feat in g.exclude:
                g.excluded[feat] += 1
                node = {"type": "string"}
            else:
                g.used[feat] += 1
        elif any(_py(pn) == _py(q) for q in props) and any(_promotable(props[q]) for q in props if _py(pn) == _py(q)):
            if "colliding_props_promotable" in g.exclude:
                g.excluded["colliding_props_promotable"] += 1
                continue
        if _reserved_name(pn) and _promotable(node):
            # a promoted inline type would be named after a reserved name (str -> Str_): known finding C01-F14
            if "reserved_prop_inline_type" in g.exclude:
                g.excluded["reserved_prop_inline_type"] += 1
                node = {"type": "string"}
            else:
                g.used["reserved_prop_inline_type"] += 1
        props[pn] = node
    if g.flag(draw, "colliding_prop_cluster", 1, 8):
        # keys that derive to the same Python identifier (+ one that equals the de-collision suffix form); scalar-typed,
        # so no synthesised inline types are involved (those are C03-F03)
        cluster = draw(st.sampled_from(COLLISION_CLUSTERS))
        k = draw(st.integers(2, len(cluster)))
        for pn in draw(st.permutations(cluster))[:k]:
            if pn not in props and not any(_py(pn) == _py(q) and _promotable(props[q]) for q in props):
                props[pn] = {"type": draw(st.sampled_from(["string", "integer", "boolean"]))}
    req = [p for p in props if draw(st.booleans())]
    node: dict[str, Any] = {"type": "object", "properties": props}
    if props and g.flag(draw, "props_plus_additional_schema", 1, 10):
        # declared properties next to additionalProperties given as a schema: still an object model with those fields
        node["additionalProperties"] = draw(st.sampled_from([{"type": "string"}, {"type": "integer"}, {}]))
    if req:
        node["required"] = req
    if g.flag(draw, "description", 1, 5):
        node["description"] = "An object."
    return node


def _top_schema(draw, g: Gate, name: str, names: list[str], idx: int) -> dict:
    others = [n for n in names if n != name]
    if name in SUFFIXED_SCHEMA_NAMES and "top_alias_prim" not in g.exclude and g.flag(draw, "suffixed_primitive_alias", 1, 2):
        # a bare primitive alias (no enum, no description) under a name whose class gets a reserved-name suffix (Id -> Id_)
        return {"type": draw(st.sampled_from(["string", "integer"]))}
    kind = g.pick(draw, [
        (None, "object"), (None, "object"), (None, "object"), (None, "object"),
        ("top_enum", "enum"), ("top_alias_prim", "alias_prim"), ("top_alias_array", "alias_array"), ("allof", "allof"),
        ("union", "union"), ("disc_union", "disc_union"), ("top_map", "map"), ("top_alias_ref", "alias_ref"),
    ], fallback="object")
    later = names[idx + 1:]
    if kind == "object" or (kind in ("allof", "union", "disc_union", "alias_ref") and not others):
        return _object(draw, g, names, 2, name, later)
    if kind == "enum":
        if draw(st.booleans()):
            return {"type": "string", "enum": draw(st.lists(st.sampled_from(["red", "green", "blue", "dark-red", "RED", "1x", "a b"]), min_size=1, max_size=4, unique=True))}
        return {"type": "integer", "enum": draw(st.lists(st.integers(-2, 9), min_size=1, max_size=4, unique=True))}
    if kind == "alias_prim":
        return _primitive(draw, g)
    if kind == "alias_array":
        items = _ref(draw(st.sampled_from(others))) if others and draw(st.booleans()) else _primitive(draw, g)
        if g.flag(draw, "nested_array_alias", 1, 3):
            clash = any(_cls(name) + "Item" == _cls(n) for n in names)
            if clash and "prop_class_equals_schema_name" in g.exclude:
                # the alias synthesised for the inner array (<Name>Item) equals a declared schema name (Order / OrderItem): C03-F04
                g.excluded["prop_class_equals_schema_name"] += 1
            else:
                items = {"type": "array", "items": items}  # container of containers as the ROOT of a named model
        return {"type": "array", "items": items}
    if kind == "map":
        vals = _ref(draw(st.sampled_from(others))) if others and draw(st.booleans()) else _primitive(draw, g)
        if g.flag(draw, "map_of_arrays", 1, 4):
            vals = {"type": "array", "items": vals}
        return {"type": "object", "additionalProperties": vals}
    if kind == "alias_ref":
        return _ref(draw(st.sampled_from(others)))
    if kind == "allof":
        parents = draw(st.lists(st.sampled_from(others), min_size=1, max_size=2, unique=True))
        own = _object(draw, g, names, 1, name, later, max_props=3)
        own.pop("description", None)
        for pk, pv in list(own.get("properties", {}).items()):
            if _promotable(pv):
                # inline type inside an anonymous allOf member is promoted under the bare property name (C03-F05)
                if "promotable_in_allof_member" in g.exclude:
                    g.excluded["promotable_in_allof_member"] += 1
                    own["properties"][pk] = {"type": "string"}
                else:
                    g.used["promotable_in_allof_member"] += 1
        return {"allOf": [_ref(p) for p in parents] + [own]}
    if kind in ("union", "disc_union"):
        k = draw(st.sampled_from(["oneOf", "anyOf"]))
        variants = draw(st.lists(st.sampled_from(others), min_size=min(2, len(others)), max_size=min(3, len(others)), unique=True))
        node: dict[str, Any] = {k: [_ref(v) for v in variants]}
        if kind == "disc_union":
            node["discriminator"] = {"propertyName": "kind"}
            if draw(st.booleans()):
                node["discriminator"]["mapping"] = {v.lower(): f"#/components/schemas/{v}" for v in variants}
            node["_disc_variants"] = variants  # consumed by _finish_discriminators, removed before rendering
        return node
    raise AssertionError(kind)


def _finish_discriminators(schemas: dict, g: "Gate | None" = None) -> None:
    """Make every discriminated variant an object with a required string discriminator property (sound input)."""
    for name, node in list(schemas.items()):
        variants = node.pop("_disc_variants", None)
        if not variants:
            continue
        ok = True
        for v in variants:
            tgt = schemas.get(v)
            if not (isinstance(tgt, dict) and tgt.get("type") == "object" and "properties" in tgt):
                ok = False
        if not ok:
            node.pop("discriminator", None)
            continue
        if g is not None and len({_cls(v).lower() for v in variants}) < len(variants):
            # variants whose names derive to one class name (Foo.Bar / foo-bar): the unified discriminator enum gets duplicate members (C01-F18)
            if "disc_union_colliding_variant_names" in g.exclude:
                g.excluded["disc_union_colliding_variant_names"] += 1
                node.pop("discriminator", None)
                continue
            g.used["disc_union_colliding_variant_names"] += 1
        if g is not None and "reserved_schema_name" in g.exclude and any(v in SUFFIXED_SCHEMA_NAMES for v in variants):
            # a discriminated union over a variant whose class name gets a reserved-name suffix (Email -> Email_): C01-F08
            g.excluded["reserved_schema_name"] += 1
            node.pop("discriminator", None)
            continue
        if g is not None and any(not re.fullmatch(r"[A-Z][A-Za-z0-9]*", v) or v in RESERVED_SCHEMA_NAMES or v in SUFFIXED_SCHEMA_NAMES for v in variants):
            if "hostile_schema_in_mapping" in g.exclude:
                g.excluded["hostile_schema_in_mapping"] += 1
                node.pop("discriminator", None)
                continue
            g.used["hostile_schema_in_mapping"] += 1
        mapping = node["discriminator"].get("mapping")
        for v in variants:
            tgt = schemas[v]
            val = next((k for k, r in (mapping or {}).items() if r.endswith("/" + v)), v)
            tgt["properties"]["kind"] = {"type": "string", "enum": [val]}
            tgt.setdefault("required", [])
            if "kind" not in tgt["required"]:
                tgt["required"].append("kind")


def _separate_bare_union_names(schemas: dict, g: Gate) -> None:
    """An inline oneOf/anyOf property is promoted under the BARE property name (User.userId -> alias UserId).  When a property of the
    same name elsewhere in the document holds an inline object (at any depth, e.g. Item.code[].userId), that one is typed with the
    alias as well and the modules import each other circularly (C01-F17).  With the finding open the union is replaced."""
    unions: list[tuple[dict, str]] = []
    objects: set[str] = set()

    def walk(node):
        if isinstance(node, dict):
            for k, v in (node.get("properties") or {}).items() if isinstance(node.get("properties"), dict) else []:
                if isinstance(v, dict) and ("oneOf" in v or "anyOf" in v):
                    unions.append((node["properties"], k))
                elif isinstance(v, dict) and (v.get("type") == "object" and "properties" in v):
                    objects.add(_cls(k))
                elif isinstance(v, dict) and v.get("type") == "array" and isinstance(v.get("items"), dict) and "properties" in v["items"]:
                    objects.add(_cls(k))
            for v in node.values():
                walk(v)
        elif isinstance(node, list):
            for v in node:
                walk(v)

    walk(schemas)
    for props, k in unions:
        if _cls(k) in objects:
            if "bare_union_name_clash" in g.exclude:
                g.excluded["bare_union_name_clash"] += 1
                props[k] = {"type": "string"}
            else:
                g.used["bare_union_name_clash"] += 1


def _unrequire_self_refs(schemas: dict) -> None:
    """A schema that REQUIRES a direct reference to itself has no finite instance: such a property is made optional."""
    def fix(node, name):
        if not isinstance(node, dict):
            return
        for k, p in (node.get("properties") or {}).items():
            if isinstance(p, dict) and p.get("$ref", "").endswith("/" + name) and k in node.get("required", []):
                node["required"].remove(k)
        if not node.get("required"):
            node.pop("required", None)
        for m in node.get("allOf", []) or []:
            fix(m, name)

    for name, node in schemas.items():
        fix(node, name)


def _dedupe_allof_keys(schemas: dict) -> None:
    """allOf has no override semantics: a child re-declaring an inherited key with another type would be contradictory
    input, so own keys that collide with a parent's (flattened) keys are dropped."""
    from .refmodel.instances import flatten

    for name, node in schemas.items():
        if not (isinstance(node, dict) and "allOf" in node):
            continue
        inherited: set[str] = set()
        for m in list(node["allOf"]):
            if "$ref" in m:
                f = flatten(m, schemas)
                if f is None:
                    # parent that is not an object model (string alias, enum, array, map, union): "object AND string" has no
                    # instance at all, and the merge semantics of the others are not what the reference model implements
                    node["allOf"].remove(m)
                    continue
                if f:
                    if inherited & set(f["properties"]):
                        node["allOf"].remove(m)  # two parents declaring the same key differently: contradictory input
                        continue
                    inherited |= set(f["properties"])
        for m in node["allOf"]:
            if "$ref" not in m and "properties" in m:
                for k in list(m["properties"]):
                    if k in inherited:
                        del m["properties"][k]
                        if k in m.get("required", []):
                            m["required"].remove(k)
                if not m.get("required"):
                    m.pop("required", None)


# ---------------------------------------------------------------------------------------------
# reference cycles between named schemas


def _refs_in(node: Any, path: tuple = ()) -> list[tuple[tuple, str]]:
    """[(json path inside the node, target schema name)] for every $ref below node."""
    out = []
    if isinstance(node, dict):
        if isinstance(node.get("$ref"), str) and node["$ref"].startswith("#/components/schemas/"):
            out.append((path, node["$ref"].rsplit("/", 1)[1]))
        in_props = bool(path) and path[-1] == "properties"  # keys are property NAMES here, not keywords
        for k, v in node.items():
            if not in_props and k in ("discriminator", "_disc_variants", "required", "enum"):
                continue
            out.extend(_refs_in(v, path + (k,)))
    elif isinstance(node, list):
        for i, v in enumerate(node):
            out.extend(_refs_in(v, path + (i,)))
    return out


def _benign_self_loop(path: tuple, name: str = "", strict: frozenset = frozenset()) -> bool:
    """A direct `prop: $ref Self` or `prop: array of $ref Self` of an object schema is in the clean domain of C01.
    `strict` names further findings whose triggers are to be treated as non-benign:
      self_ref_array           array of $ref Self (C03-F01: List["X"] forward reference cannot be structured)
      renamed_schema_self_ref  any self reference of a schema whose class name differs from its raw name (C03-F02)"""
    direct = len(path) == 2 and path[0] == "properties"
    array = len(path) == 3 and path[0] == "properties" and path[2] == "items"
    if not (direct or array):
        return False
    if array and "self_ref_array" in strict:
        return False
    if "renamed_schema_self_ref" in strict and name and _cls(name) != name:
        return False
    return True


def cycle_edges(schemas: dict, strict: frozenset = frozenset()) -> list[tuple[str, tuple, str]]:
    """Back edges (schema, path, target) whose removal makes the named-schema reference graph acyclic
    (benign self-loops are kept and not counted)."""
    graph = {n: [(p, t) for p, t in _refs_in(node) if t in schemas] for n, node in schemas.items()}
    state: dict[str, int] = {}
    back: list[tuple[str, tuple, str]] = []

    def dfs(u: str) -> None:
        state[u] = 1
        for p, t in graph[u]:
            if t == u:
                if not _benign_self_loop(p, u, strict):
                    back.append((u, p, t))
                continue
            if state.get(t, 0) == 1:
                back.append((u, p, t))
            elif state.get(t, 0) == 0:
                dfs(t)
        state[u] = 2

    for n in schemas:
        if state.get(n, 0) == 0:
            dfs(n)
    return back


def has_cycle(schemas: dict) -> bool:
    return bool(cycle_edges(schemas))


def break_cycles(schemas: dict, strict: frozenset = frozenset()) -> int:
    """Replaces every back edge by a plain string schema (or drops it from a composition list). Returns #edges cut."""
    n = 0
    for _ in range(50):
        edges = cycle_edges(schemas, strict)
        if not edges:
            break
        u, path, _t = edges[0]
        parent = schemas[u]
        if not path:  # the schema itself is an alias $ref
            schemas[u] = {"type": "string"}
            n += 1
            continue
        for k in path[:-1]:
            parent = parent[k]
        last = path[-1]
        if isinstance(parent, list):
            del parent[last]
            # keep compositions well-formed
            holder = schemas[u]
            for k in path[:-2]:
                holder = holder[k]
            key = path[-2]
            if isinstance(holder, dict) and key in ("oneOf", "anyOf", "allOf") and not holder[key]:
                holder.pop(key)
                holder.pop("discriminator", None)
                holder.pop("_disc_variants", None)
                holder.setdefault("type", "object")
            elif isinstance(holder, dict) and key in ("oneOf", "anyOf") and "discriminator" in holder:
                holder.pop("discriminator", None)
        else:
            parent[last] = {"type": "string"}
        n += 1
    return n


# ---------------------------------------------------------------------------------------------
# operations


def _param_schema(draw, g: Gate, names: list[str], location: str) -> dict:
    kind = g.pick(draw, [
        (None, "string"), (None, "integer"), (None, "boolean"), (None, "number"), ("param_enum", "enum"),
        ("param_array", "array"), ("param_date", "date"), ("param_ref_enum", "ref"), ("param_uuid", "uuid"),
    ], fallback="string")
    if location == "path" and kind in ("array", "boolean"):
        kind = "string"
    if location in ("header", "cookie") and kind in ("integer", "boolean", "number", "array"):
        # non-string header/cookie values are handed to httpx as they are (TypeError / wrong rendering): finding C04-F02
        if not g.flag(draw, "header_param_non_string", 1, 1):
            kind = "string"
    if kind in ("string", "integer", "boolean", "number"):
        return {"type": kind}
    if kind == "enum":
        return {"type": "string", "enum": ["asc", "desc"]}
    if kind == "array":
        return {"type": "array", "items": {"type": draw(st.sampled_from(["string", "integer"]))}}
    if kind == "date":
        # a date-time in the PATH has no agreed textual form (str(datetime) vs isoformat): only `date` is generated there
        return {"type": "string", "format": "date" if location == "path" else draw(st.sampled_from(["date", "date-time"]))}
    if kind == "uuid":
        return {"type": "string", "format": "uuid"}
    return {"type": "string"}


def _body_schema(draw, g: Gate, names: list[str]) -> dict:
    kind = g.pick(draw, [(None, "ref"), (None, "ref"), ("body_inline_object", "inline"), ("body_array", "array"), ("body_prim", "prim"),
                         ("body_map", "map")], fallback="ref")
    if kind == "ref" and names:
        return _ref(draw(st.sampled_from(names)))
    if kind == "array" and names:
        return {"type": "array", "items": _ref(draw(st.sampled_from(names)))}
    if kind == "prim":
        return {"type": draw(st.sampled_from(["string", "integer", "boolean"]))}
    if kind == "map":
        return {"type": "object", "additionalProperties": {"type": "string"}}
    props = _gate_colliding_promotable(g, {pn: _primitive(draw, g) for pn in draw(st.lists(st.sampled_from(PROP_NAMES), min_size=1, max_size=3, unique=True))})
    return {"type": "object", "properties": props, "required": [next(iter(props))]}


def _refers_to_nested_array_alias(sch: dict, schemas: dict) -> bool:
    """$ref (directly or as array items) to a named schema that is an array whose items are arrays again."""
    def deref(n):
        for _ in range(6):
            if isinstance(n, dict) and "$ref" in n:
                n = schemas.get(n["$ref"].rsplit("/", 1)[1], {})
        return n if isinstance(n, dict) else {}

    cands = [sch] + ([sch.get("items")] if isinstance(sch, dict) and sch.get("type") == "array" else [])
    for c in cands:
        if isinstance(c, dict) and "$ref" in c:
            t = deref(c)
            if t.get("type") == "array" and deref(t.get("items", {})).get("type") == "array":
                return True
    return False


def _refers_to_enum_array_alias(sch: dict, schemas: dict) -> bool:
    """$ref (directly or as array items) to a named schema that is an array whose items resolve to an enum."""
    def deref(n):
        for _ in range(6):
            if isinstance(n, dict) and "$ref" in n:
                n = schemas.get(n["$ref"].rsplit("/", 1)[1], {})
        return n if isinstance(n, dict) else {}

    cands = [sch] + ([sch.get("items")] if isinstance(sch, dict) and sch.get("type") == "array" else [])
    for c in cands:
        if isinstance(c, dict) and "$ref" in c:
            t = deref(c)
            if t.get("type") == "array" and "enum" in deref(t.get("items", {})):
                return True
    return False


def _gate_colliding_promotable(g: Gate, props: dict) -> dict:
    """Inline objects of bodies / responses: two keys deriving to one identifier where one needs a synthesised type (inline enum) are
    the trigger of C03-F03; with that finding open the later key is dropped (counted)."""
    out: dict = {}
    for k, v in props.items():
        clash = [q for q in out if _py(q) == _py(k)]
        if clash and (_promotable(v) or any(_promotable(out[q]) for q in clash)):
            if "colliding_props_promotable" in g.exclude:
                g.excluded["colliding_props_promotable"] += 1
                continue
            g.used["colliding_props_promotable"] += 1
        out[k] = v
    return out


def _formatted_primitive(schema: dict, schemas: dict, _depth: int = 0) -> bool:
    """Resolves (through aliases and array levels) to a string with a format / an enum-free formatted scalar."""
    n = schema
    for _ in range(6):
        if isinstance(n, dict) and "$ref" in n:
            n = schemas.get(n["$ref"].rsplit("/", 1)[1], {})
    if isinstance(n, dict) and n.get("type") == "array":
        if _depth > 8:  # array aliases may refer to themselves (cyclic documents are in C09's domain)
            return False
        return _formatted_primitive(n.get("items", {}), schemas, _depth + 1)
    return isinstance(n, dict) and n.get("type") == "string" and n.get("format") in ("uuid", "date", "date-time", "byte", "binary")


def _response(draw, g: Gate, names: list[str], code: str, success: bool, schemas_ctx: dict | None = None) -> dict:
    resp: dict[str, Any] = {"description": draw(st.sampled_from(["OK", "Created", "Result", "Failure", "It's done"]))}
    if not success:
        kind = g.pick(draw, [(None, "none"), (None, "json"), ("error_text", "text")], fallback="none")
    else:
        kind = g.pick(draw, [
            (None, "json"), (None, "json"), (None, "json"), (None, "none"), ("resp_text", "text"), ("resp_binary", "binary"),
            ("resp_sse", "sse"), ("resp_ndjson", "ndjson"), ("resp_multi_media", "multi"), ("resp_image", "image"),
        ], fallback="json")
    if code == "204":
        kind = "none"
    if kind == "none":
        return resp
    if kind == "json":
        sch = _resp_schema(draw, g, names)
        exc_like = getattr(g, "exception_like_payloads", [])
        if exc_like and not success and draw(st.booleans()):
            sch = _ref(draw(st.sampled_from(exc_like)))  # an ERROR payload schema named like one of the core's exception classes
        elif exc_like and success and g.flag(draw, "exception_like_schema_name", 1, 6):
            sch = _ref(draw(st.sampled_from(exc_like)))  # the same schema as a SUCCESS body: the endpoint module imports the model (C06-F01)
        if success and _refers_to_nested_array_alias(sch, schemas_ctx or {}):
            # a response that refers to a NAMED array-of-array alias is returned via cast() as raw lists/dicts: finding C05-F08
            if "resp_nested_array_alias" in g.exclude:
                g.excluded["resp_nested_array_alias"] += 1
                sch = {"type": "array", "items": {"type": "string"}}
            else:
                g.used["resp_nested_array_alias"] += 1
        if success and _refers_to_enum_array_alias(sch, schemas_ctx or {}):
            # a response that refers to a NAMED alias "array of a named enum" is returned via cast() as raw strings: finding C05-F09
            if "resp_enum_array_alias" in g.exclude:
                g.excluded["resp_enum_array_alias"] += 1
                sch = {"type": "array", "items": {"type": "string"}}
            else:
                g.used["resp_enum_array_alias"] += 1
        if success and _formatted_primitive(sch, schemas_ctx or {}):
            # a formatted primitive (uuid/date/...) as the whole response is cast, not converted: finding C05-F04
            if not g.flag(draw, "resp_formatted_primitive", 1, 1):
                sch = {"type": "string"}
        resp["content"] = {"application/json": {"schema": sch}}
    elif kind == "text":
        resp["content"] = {"text/plain": {"schema": {"type": "string"}}}
    elif kind == "binary":
        resp["content"] = {"application/octet-stream": {"schema": {"type": "string", "format": "binary"}}}
    elif kind == "image":
        resp["content"] = {"image/png": {"schema": {"type": "string", "format": "binary"}}}
    elif kind == "sse":
        resp["content"] = {"text/event-stream": {"schema": _ref(draw(st.sampled_from(names))) if names else {"type": "string"}}}
    elif kind == "ndjson":
        resp["content"] = {"application/x-ndjson": {"schema": _ref(draw(st.sampled_from(names))) if names else {"type": "object"}}}
    elif kind == "multi":
        sch = _resp_schema(draw, g, names)
        if success and _formatted_primitive(sch, schemas_ctx or {}) and not g.flag(draw, "resp_formatted_primitive", 1, 1):
            sch = {"type": "string"}
        resp["content"] = {"application/json": {"schema": sch}, "text/plain": {"schema": {"type": "string"}}}
        if g.flag(draw, "resp_multi_media_many", 1, 3):
            # three to five media types, several of which map to the same Python type (str / bytes); no binary FORMAT (that would
            # turn the response into a stream)
            extra = draw(st.lists(st.sampled_from(["text/csv", "text/html", "image/png", "image/jpeg", "application/pdf"]), min_size=1, max_size=3, unique=True))
            for mt in extra:
                resp["content"][mt] = {"schema": {"type": "string"}} if mt.startswith("text/") else {}
        if draw(st.booleans()):
            resp["content"] = dict(reversed(list(resp["content"].items())))
    return resp


def _resp_schema(draw, g: Gate, names: list[str]) -> dict:
    kind = g.pick(draw, [
        (None, "ref"), (None, "ref"), (None, "ref"), ("resp_array", "array_ref"), ("resp_inline_object", "inline"), ("resp_prim", "prim"),
        ("resp_array_prim", "array_prim"), ("resp_map", "map"), ("resp_inline_union", "union"), ("resp_any", "any"),
        ("resp_array_inline_object", "array_inline"), ("resp_array_inline_object", "array_inline"),
    ], fallback="ref")
    if not names and kind in ("ref", "array_ref", "union"):
        kind = "prim"
    if kind == "ref":
        return _ref(draw(st.sampled_from(names)))
    if kind == "array_ref":
        return {"type": "array", "items": _ref(draw(st.sampled_from(names)))}
    if kind == "prim":
        return {"type": draw(st.sampled_from(["string", "integer", "boolean", "number"]))}
    if kind == "array_prim":
        return {"type": "array", "items": {"type": draw(st.sampled_from(["string", "integer"]))}}
    if kind == "map":
        return {"type": "object", "additionalProperties": {"type": draw(st.sampled_from(["string", "integer"]))}}
    if kind == "union":
        vs = draw(st.lists(st.sampled_from(names), min_size=min(2, len(names)), max_size=min(3, len(names)), unique=True))
        return {"oneOf": [_ref(v) for v in vs]}
    if kind == "any":
        return {}
    props = _gate_colliding_promotable(g, {pn: _primitive(draw, g) for pn in draw(st.lists(st.sampled_from(PROP_NAMES), min_size=1, max_size=3, unique=True))})
    obj = {"type": "object", "properties": props, "required": [next(iter(props))]}
    if kind == "array_inline":
        return {"type": "array", "items": obj}
    return obj


STREAM_MEDIA = {"text/event-stream", "application/x-ndjson", "application/octet-stream", "image/png", "application/json-seq", "multipart/mixed"}


def _is_streaming(resp: dict, schemas: dict) -> bool:
    for mt, mn in (resp.get("content") or {}).items():
        if mt in STREAM_MEDIA:
            return True
        sch = (mn or {}).get("schema") or {}
        for _ in range(5):
            if "$ref" in sch:
                sch = schemas.get(sch["$ref"].rsplit("/", 1)[1], {})
        if sch.get("format") == "binary":
            return True
    return False


def _operation(draw, g: Gate, names: list[str], path: str, path_vars: list[str], method: str, op_index: int,
               path_level_names: set[tuple[str, str]], schemas_ctx: dict | None = None) -> dict:
    schemas_ctx = schemas_ctx or {}
    op: dict[str, Any] = {}
    # operationId
    oid_kind = g.pick(draw, [(None, "camel"), (None, "snake"), ("no_operation_id", "absent"), ("dup_operation_id", "dup"),
                             ("fastapi_operation_id", "fastapi"), ("hostile_operation_id", "hostile"),
                             ("digit_leading_operation_id", "digit")], fallback="camel", weights=[8, 8, 4, 2, 2, 2, 1])
    base = ["list", "get", "create", "update", "delete", "find", "fetch", "put"][op_index % 8] + ["Pets", "User", "Orders", "Things", "Item", "Parts"][(op_index // 2) % 6]
    if oid_kind == "camel":
        op["operationId"] = f"{base}{op_index}"
    elif oid_kind == "snake":
        op["operationId"] = f"{base.lower()}_{op_index}"
    elif oid_kind == "dup":
        op["operationId"] = draw(st.sampled_from(["getItem", "get_item", "get-item", "GetItem", "listAll", "list_all", "get_item_2"]))
    elif oid_kind == "fastapi":
        import re as _re

        norm = _re.sub(r"_+", "_", _re.sub(r"[^0-9a-zA-Z_]", "_", _re.sub(r"[{}]", "", path.strip("/")))).strip("_").lower()
        op["operationId"] = f"handler{op_index}_{norm}_{method}" if norm else f"handler{op_index}_{method}"
    elif oid_kind == "hostile":
        op["operationId"] = draw(st.sampled_from(["class", "import", "get.pets", "get pets", "Get", "list", "type", "méthode", "from"])) + ("" if draw(st.booleans()) else str(op_index))
    elif oid_kind == "digit":
        op["operationId"] = draw(st.sampled_from(["2fast", "3DModel", "1st_item"])) + str(op_index)
    # tags
    tag_kind = g.pick(draw, [(None, "one"), (None, "one"), (None, "none"), ("multi_tag", "multi"), ("hostile_tag", "hostile"),
                             ("tag_variant", "variant"), ("client_attr_tag", "client_attr"), ("tag_variant", "multi_variant")],
                      fallback="one", weights=[3, 3, 3, 2, 2, 2, 1, 1])
    if tag_kind == "one":
        op["tags"] = [draw(st.sampled_from(TAGS))]
    elif tag_kind == "multi":
        op["tags"] = draw(st.lists(st.sampled_from(TAGS), min_size=2, max_size=3, unique=True))
    elif tag_kind == "hostile":
        op["tags"] = [draw(st.sampled_from(HOSTILE_TAGS))]
    elif tag_kind == "variant":
        op["tags"] = [draw(st.sampled_from(VARIANT_TAGS))]
    elif tag_kind == "client_attr":
        op["tags"] = [draw(st.sampled_from(CLIENT_ATTR_TAGS))]
    elif tag_kind == "multi_variant":
        # ONE operation listing several spellings of one tag (still one tag group)
        cluster = draw(st.sampled_from([["pets", "Pets", "PETS"], ["data-sources", "data_sources", "DataSources", "datasources"], ["Store", "store"],
                                        ["AuditLogs", "auditlogs", "audit_logs", "audit-logs"], ["users", "USERS", "Users"],
                                        ["user_datax", "userdata_x", "userd_atax"]]))
        op["tags"] = draw(st.permutations(cluster))[:draw(st.integers(2, len(cluster)))]
    if g.flag(draw, "summary", 1, 3):
        op["summary"] = draw(st.sampled_from(["Do the thing", "List things.", "Fetch one"]))
    if g.flag(draw, "op_description", 1, 5):
        op["description"] = "Longer description\nover two lines."
    # parameters
    params: list[dict] = []
    for v in path_vars:
        if ("path", v) in path_level_names and not g.flag(draw, "path_param_redeclared", 1, 5):
            continue
        if ("path", v) not in path_level_names and g.flag(draw, "path_param_undeclared", 1, 12):
            continue
        params.append({"name": v, "in": "path", "required": True, "schema": _param_schema(draw, g, names, "path")})
    n_extra = draw(st.integers(0, 4))
    seen = {(p["in"], p["name"]) for p in params} | set(path_level_names) | {("path", v) for v in path_vars}
    for (pl_loc, pl_name) in sorted(path_level_names):
        if pl_loc == "path":
            continue
        if g.flag(draw, "path_level_param_overridden", 1, 4):
            # the operation re-declares the path-level parameter (same name and location): the operation's declaration wins
            ov_type = "string" if (pl_loc == "header" and "header_param_non_string" in g.exclude) else draw(st.sampled_from(["string", "integer"]))
            params.append({"name": pl_name, "in": pl_loc, "required": draw(st.booleans()), "schema": {"type": ov_type}})
        elif "param_same_name_two_locations" not in g.exclude and g.flag(draw, "path_level_param_same_name_other_location", 1, 3):
            # the operation declares a DIFFERENT parameter with the same name in another location: both must stay
            other = "header" if pl_loc == "query" else "query"
            if (other, pl_name) not in seen:
                g.used["param_same_name_two_locations"] += 1
                params.append({"name": pl_name, "in": other, "required": draw(st.booleans()), "schema": {"type": "string"}})
                seen.add((other, pl_name))
    for _ in range(n_extra):
        loc = g.pick(draw, [(None, "query"), (None, "query"), (None, "query"), ("header_param", "header"), ("cookie_param", "cookie")], fallback="query")
        pname = g.pick(draw, [(None, n) for n in PARAM_NAMES] + [("hostile_param_name", n) for n in HOSTILE_PARAM_NAMES]
                       + [("param_named_like_body_arg", n) for n in BODY_ARG_PARAM_NAMES],
                       fallback=draw(st.sampled_from(PARAM_NAMES)),
                       weights=[3] * len(PARAM_NAMES) + [1] * len(HOSTILE_PARAM_NAMES) + [1] * len(BODY_ARG_PARAM_NAMES))
        if (loc, pname) in seen:
            continue
        same_name_other_loc = any(_py(n) == _py(pname) for (_, n) in seen)
        if same_name_other_loc and not g.flag(draw, "param_same_name_two_locations", 1, 1):
            continue
        seen.add((loc, pname))
        p = {"name": pname, "in": loc, "required": draw(st.booleans()), "schema": _param_schema(draw, g, names, loc)}
        if g.flag(draw, "param_description", 1, 4):
            p["description"] = "A parameter."
        params.append(p)
    if params:
        op["parameters"] = params
    # request body
    if method in ("post", "put", "patch") and draw(st.integers(0, 4)) > 0:
        media = g.pick(draw, [
            (None, "json"), (None, "json"), (None, "json"), ("body_form", "form"), ("body_multipart", "multipart"), ("body_octet", "octet"),
            ("body_multi_content", "multi"), ("body_text", "text"),
        ], fallback="json")
        if media == "multi" and (any(p["in"] != "path" for p in params) or any(loc != "path" for loc, _ in path_level_names)):
            # the multi-content dispatch drops query/header/cookie parameters: finding C04-F01
            if not g.flag(draw, "multi_content_with_params", 1, 1):
                media = "json"
        rb: dict[str, Any] = {"required": True if not g.flag(draw, "body_optional", 1, 5) else False}
        if media == "multi" and not rb["required"] and not g.flag(draw, "multi_content_optional_body", 1, 1):
            rb["required"] = True
        if media == "json":
            rb["content"] = {"application/json": {"schema": _body_schema(draw, g, names)}}
        elif media == "form":
            rb["content"] = {"application/x-www-form-urlencoded": {"schema": {"type": "object", "properties": {"a": {"type": "string"}, "b": {"type": "integer"}}}}}
        elif media == "multipart":
            rb["content"] = {"multipart/form-data": {"schema": {"type": "object", "properties": {"file": {"type": "string", "format": "binary"}, "note": {"type": "string"}}}}}
        elif media == "octet":
            rb["content"] = {"application/octet-stream": {"schema": {"type": "string", "format": "binary"}}}
        elif media == "text":
            rb["content"] = {"text/plain": {"schema": {"type": "string"}}}
        else:
            rb["content"] = {
                "application/json": {"schema": _body_schema(draw, g, names)},
                "multipart/form-data": {"schema": {"type": "object", "properties": {"file": {"type": "string", "format": "binary"}}}},
            }
        op["requestBody"] = rb
    # responses
    responses: dict[str, Any] = {}
    primary = g.pick(draw, [(None, "200"), (None, "200"), (None, "201"), (None, "204"), ("status_202", "202"), ("status_206", "206"),
                            ("no_2xx", None)], fallback="200")
    if primary is None and g.flag(draw, "success_documented_under_default", 1, 3):
        # no numeric 2xx: the success response (possibly a stream) is documented under `default` only
        responses["default"] = _response(draw, g, names, "default", True, schemas_ctx)
    if primary:
        responses[primary] = _response(draw, g, names, primary, True, schemas_ctx)
        if g.flag(draw, "multi_2xx", 1, 6):
            second = draw(st.sampled_from([c for c in ["200", "201", "202", "204"] if c != primary]))
            responses[second] = _response(draw, g, names, second, True, schemas_ctx)
            for a, b in ((primary, second), (second, primary)):
                if _is_streaming(responses[a], schemas_ctx) and responses[b].get("content"):
                    if not g.flag(draw, "stream_second_2xx_content", 1, 1):
                        responses[b].pop("content")
    for _ in range(draw(st.integers(0, 3))):
        code = g.pick(draw, [(None, "400"), (None, "404"), (None, "401"), (None, "422"), (None, "500"), (None, "503"), (None, "409"),
                             ("status_default", "default"), ("status_3xx", "302"), ("status_3xx", "304"), ("status_1xx", "100"),
                             ("status_range", "4XX"), ("status_range", "5XX"), ("status_uncommon", "418"), ("status_uncommon", "599")],
                      fallback="400")
        if code not in responses:
            responses[code] = _response(draw, g, names, code, False)
    if not responses:
        responses["default"] = {"description": "Default"}
    if not any(str(c).startswith("2") for c in responses):
        for code_, r in responses.items():
            if code_ != "default" and _is_streaming(r, schemas_ctx):
                # no 2xx and a binary/stream payload on an error response: the error response becomes "primary", the method is
                # annotated AsyncIterator but its body only raises (C13-F01)
                if "no_2xx_streaming_error_payload" in g.exclude:
                    g.excluded["no_2xx_streaming_error_payload"] += 1
                    r.pop("content", None)
                else:
                    g.used["no_2xx_streaming_error_payload"] += 1
        # without a 2xx response an error response becomes the "primary" one and its payload model is imported by the endpoint
        # module: with an exception-like name that is the success-position trigger of C06-F01
        for r in responses.values():
            for m in (r.get("content") or {}).values():
                ref = (m.get("schema") or {}).get("$ref", "")
                if ref.split("/")[-1] in getattr(g, "exception_like_payloads", []):
                    if "exception_like_schema_name" in g.exclude:
                        g.excluded["exception_like_schema_name"] += 1
                        m["schema"] = {"type": "object", "properties": {"message": {"type": "string"}}}
                    else:
                        g.used["exception_like_schema_name"] += 1
    op["responses"] = responses
    return op


@st.composite
def specs(draw, gate: Gate | None = None, max_schemas: int = 5, max_ops: int = 4, min_ops: int = 1) -> dict:
    g = gate if gate is not None else Gate()
    n_s = draw(st.integers(0 if g.flag(draw, "no_schemas", 1, 12) else 1, max_schemas))
    pool = ([(None, n) for n in SCHEMA_NAMES] + [("hostile_schema_name", n) for n in HOSTILE_SCHEMA_NAMES]
            + [("reserved_schema_name", n) for n in RESERVED_SCHEMA_NAMES] + [("suffixed_schema_name", n) for n in SUFFIXED_SCHEMA_NAMES])
    names: list[str] = []
    for _ in range(n_s):
        n = g.pick(draw, pool, fallback=draw(st.sampled_from(SCHEMA_NAMES)),
                   weights=[3] * len(SCHEMA_NAMES) + [1] * len(HOSTILE_SCHEMA_NAMES) + [1] * len(RESERVED_SCHEMA_NAMES) + [1] * len(SUFFIXED_SCHEMA_NAMES))
        if n in names:
            continue
        if any(_cls(n).lower() == _cls(m).lower() for m in names):
            # two schema names deriving to one class name: C20(b) owns that namespace question
            if not g.flag(draw, "colliding_schema_names", 1, 1):
                continue
        names.append(n)
    if len(names) >= 2 and "colliding_schema_names" not in g.exclude and g.flag(draw, "case_variant_schema_pair", 1, 8):
        # two schemas whose (distinct) class names differ only in letter case: ties under case-insensitive ordering
        pair = draw(st.sampled_from([("DataSet", "Dataset"), ("UserName", "Username"), ("IPhone", "Iphone")]))
        if not any(_cls(p_).lower() == _cls(m).lower() for p_ in pair for m in names[:-2]):
            names[-2:] = list(draw(st.permutations(pair)))
    schemas: dict[str, Any] = {}
    for i, n in enumerate(names):
        schemas[n] = _top_schema(draw, g, n, names, i)
    g.exception_like_payloads = []
    if g.flag(draw, "exception_like_error_payload", 1, 5):
        # error payload schemas named like the core's exception classes / status aliases; referenced from responses only
        for n in draw(st.lists(st.sampled_from(EXCEPTION_LIKE_SCHEMA_NAMES), min_size=1, max_size=2, unique=True)):
            if not any(_cls(n).lower() == _cls(m).lower() for m in names):
                schemas[n] = {"type": "object", "properties": {"message": {"type": "string"}, "code": {"type": "integer"}}}
                g.exception_like_payloads.append(n)
    for n_, node_ in schemas.items():
        # a component object schema that is itself nullable (arrays / maps / properties referring to it may then hold null)
        if isinstance(node_, dict) and node_.get("type") == "object" and "properties" in node_ and g.flag(draw, "nullable_component", 1, 8):
            node_["nullable"] = True
    _separate_bare_union_names(schemas, g)
    _finish_discriminators(schemas, g)
    _dedupe_allof_keys(schemas)
    _unrequire_self_refs(schemas)
    if "schema_cycle" in g.exclude:
        strict = frozenset(f for f in ("self_ref_array", "renamed_schema_self_ref") if f in g.exclude)
        n_plain = len(cycle_edges(schemas))
        n_broken = break_cycles(schemas, strict)
        if n_plain:
            g.excluded["schema_cycle"] += 1
        if n_broken > n_plain:
            g.excluded["self_ref_array_or_renamed_self_ref"] += 1
    elif has_cycle(schemas):
        g.used["schema_cycle"] += 1

    n_ops = draw(st.integers(min_ops if not g.flag(draw, "no_operations", 1, 15) else 0, max_ops))
    paths: dict[str, Any] = {}
    used: set[tuple[str, str]] = set()
    for oi in range(n_ops):
        path, pvars = draw(st.sampled_from(PATH_TEMPLATES))
        method = draw(st.sampled_from(METHODS))
        if (path, method) in used:
            continue
        used.add((path, method))
        item = paths.setdefault(path, {})
        path_level: set[tuple[str, str]] = {(p["in"], p["name"]) for p in item.get("parameters", [])}
        if not item and pvars and g.flag(draw, "path_level_params", 1, 4):
            item["parameters"] = [{"name": v, "in": "path", "required": True, "schema": {"type": "string"}} for v in pvars]
            if g.flag(draw, "path_level_query_param", 1, 3):
                item["parameters"].append({"name": draw(st.sampled_from(["trace", "limit", "version", "X-Request-Id"])),
                                           "in": draw(st.sampled_from(["query", "query", "header"])), "required": False, "schema": {"type": "string"}})
            path_level = {(p["in"], p["name"]) for p in item["parameters"]}
        item[method] = _operation(draw, g, names, path, pvars, method, oi, path_level, schemas)
    for p_, item_ in paths.items():
        if "parameters" in item_ and g.flag(draw, "path_level_parameters_key_last", 1, 2):
            item_["parameters"] = item_.pop("parameters")  # same path item, "parameters" written after the operations
    all_ops = [(p, m, item[m]) for p, item in paths.items() for m in item if m in METHODS]
    if len(all_ops) >= 2 and g.flag(draw, "opid_collision_cluster", 1, 6):
        # operationIds equal after sanitisation, plus one that equals the de-duplication suffix form, inside ONE tag client
        base = draw(st.sampled_from(["listUsers", "getItem", "fetchAll"]))
        snake = re.sub(r"([a-z0-9])([A-Z])", r"\1_\2", base).lower()
        ids = draw(st.permutations([base, snake, snake + "_2", base[0].upper() + base[1:], snake + "_3"]))
        tag = draw(st.sampled_from(TAGS))
        for (p_, m_, op_), oid in zip(all_ops, ids):
            op_["operationId"] = oid
            op_["tags"] = [tag]
    if len(all_ops) >= 2 and g.flag(draw, "tag_variant", 1, 8):
        # one tag written with different word boundaries / separators (still one tag group by alphanumeric content)
        cluster = draw(st.sampled_from([["data-sources", "data_sources", "dataSources", "datasources", "DataSources"], ["user groups", "user-groups", "userGroups", "usergroups"],
                                        # same alphanumeric content, equal "prettiness" (case, word count), word boundary elsewhere:
                                        # whichever spelling is canonical, the module written and the module imported must agree
                                        ["user_datax", "userdata_x", "userd_atax"], ["ab-cd", "a-bcd", "abc-d"]]))
        for (p_, m_, op_) in all_ops:
            op_["tags"] = [draw(st.sampled_from(cluster))]
    _separate_promo_collisions(all_ops, g)
    spec: dict[str, Any] = {
        "openapi": draw(st.sampled_from(["3.0.0", "3.0.3", "3.1.0"])) if g.flag(draw, "openapi_31", 1, 6) else "3.0.3",
        "info": {"title": draw(st.sampled_from(["Test API", "Pet Store", "My Service"])), "version": "1.0.0"},
        "paths": paths,
    }
    if g.flag(draw, "info_description", 1, 4):
        spec["info"]["description"] = "An API.\nSecond line."
    if schemas or draw(st.booleans()):
        spec["components"] = {"schemas": schemas}
    distinct_paths = {p_ for p_, _m, _o in all_ops}
    if len(distinct_paths) >= 2 and g.flag(draw, "shared_component_parameter", 1, 5):
        # one parameter declared once under components.parameters and referenced from operations under several paths; its schema is an
        # array of an inline enum (the item enum is promoted to a model named after ... some operation)
        shared = {"name": "state-filter", "in": "query", "required": False,
                  "schema": draw(st.sampled_from([{"type": "array", "items": {"type": "string", "enum": ["open", "closed", "on-hold"]}},
                                                  {"type": "string", "enum": ["asc", "desc"]}, {"type": "integer"}]))}
        spec.setdefault("components", {})["parameters"] = {"StateFilter": shared}
        users = [o for _p, _m, o in all_ops if not any(isinstance(q, dict) and q.get("name") == "state-filter" for q in o.get("parameters", []))]
        multi = [o for o in users if len(((o.get("requestBody") or {}).get("content") or {})) > 1]
        for o in users:
            if o in multi and "multi_content_with_params" in g.exclude:
                continue  # C04-F01: multi-content operations drop query parameters
            o.setdefault("parameters", []).append({"$ref": "#/components/parameters/StateFilter"})
    separate_param_enum_collisions(all_ops, (spec.get("components") or {}).get("parameters") or {}, g)
    opid_classes = [_cls(o.get("operationId") or f"{m_}_{p_}") for p_, m_, o in all_ops]
    if len(distinct_paths) >= 2 and len(set(opid_classes)) == len(opid_classes) and g.flag(draw, "shared_component_response", 1, 4):
        # one ERROR response declared once under components.responses (inline object body) and referenced with the same status code
        # from operations under several paths
        code = draw(st.sampled_from(["404", "409", "422"]))
        spec.setdefault("components", {})["responses"] = {"Problem": {"description": "A problem.", "content": {"application/json": {"schema": {
            "type": "object", "properties": {"title": {"type": "string"}, "status": {"type": "integer"}}}}}}}
        for _p, _m, o in all_ops:
            if any(str(c).startswith("2") for c in o.get("responses", {})):  # never the primary response of an operation without 2xx
                o["responses"][code] = {"$ref": "#/components/responses/Problem"}
    if g.flag(draw, "servers", 1, 4):
        spec["servers"] = [{"url": "https://api.example.com/v1"}]
    return spec


def _inline_body_schemas(op: dict) -> list[dict]:
    return [m.get("schema") for m in ((op.get("requestBody") or {}).get("content") or {}).values()
            if isinstance(m, dict) and isinstance(m.get("schema"), dict) and "$ref" not in m["schema"]
            and (m["schema"].get("type") == "object" or any(k in m["schema"] for k in ("properties", "allOf", "anyOf", "oneOf")))]


def _inline_response_codes(op: dict) -> set[str]:
    out = set()
    for code, r in (op.get("responses") or {}).items():
        for m in ((r or {}).get("content") or {}).values():
            sch = (m or {}).get("schema")
            if isinstance(sch, dict) and _promotable(sch):
                out.add(str(code))
    return out


def _inline_enum_param_names(op: dict, comp_params: dict) -> set[str]:
    out = set()
    for p_ in op.get("parameters", []) or []:
        if isinstance(p_, dict) and "$ref" in p_:
            p_ = comp_params.get(p_["$ref"].rsplit("/", 1)[1], {})
        sch = (p_ or {}).get("schema") or {}
        if isinstance(sch, dict) and ("enum" in sch or (sch.get("type") == "array" and isinstance(sch.get("items"), dict) and "enum" in sch["items"])):
            out.add(str(p_.get("name")))
    return out


def separate_param_enum_collisions(all_ops: list, comp_params: dict, g: Gate) -> None:
    """Operations whose operationIds derive to one class name and that both have a parameter of the same name with an inline enum
    (or an array of one): the synthesised <Op>Param<Name>[Item] enum names collide and the endpoint module imports a name that
    does not exist (C01-F16, same root as C04-F05).  With the trigger excluded the later operationId is made distinct."""
    seen: dict[tuple[str, str], int] = {}
    for i, (_p, _m, op) in enumerate(all_ops):
        oid = op.get("operationId")
        if not oid:
            continue
        names = _inline_enum_param_names(op, comp_params)
        if any((_cls(oid), n) in seen for n in names):
            if "colliding_opid_inline_param_enum" in g.exclude:
                g.excluded["colliding_opid_inline_param_enum"] += 1
                op["operationId"] = f"{oid}Y{i}"
            else:
                g.used["colliding_opid_inline_param_enum"] += 1
        for n in names:
            seen.setdefault((_cls(op["operationId"]), n), i)


def _separate_promo_collisions(all_ops: list, g: Gate) -> None:
    """Two operations whose operationIds derive to the same class name (get_item / GetItem) and that both carry an inline request
    body (or an inline response for the same status): the synthesised <Op>RequestBody / <Op><code>Response names collide (C04-F05,
    C05-F07).  With the trigger excluded the later operationId is made distinct; otherwise the case is only counted."""
    seen_body: dict[str, int] = {}
    seen_resp: dict[tuple[str, str], int] = {}
    for i, (_p, _m, op) in enumerate(all_ops):
        oid = op.get("operationId")
        if not oid:
            continue
        key = _cls(oid)
        hits = []
        if _inline_body_schemas(op):
            if key in seen_body:
                hits.append("colliding_opid_inline_request_body")
        for code in _inline_response_codes(op):
            if (key, code) in seen_resp:
                hits.append("colliding_opid_inline_response")
        renamed = False
        for f in sorted(set(hits)):
            if f in g.exclude:
                g.excluded[f] += 1
                if not renamed:
                    op["operationId"] = f"{oid}X{i}"
                    renamed = True
            else:
                g.used[f] += 1
        key = _cls(op["operationId"])
        if _inline_body_schemas(op):
            seen_body.setdefault(key, i)
        for code in _inline_response_codes(op):
            seen_resp.setdefault((key, code), i)


@st.composite
def configs(draw, gate: Gate | None = None) -> dict:
    g = gate if gate is not None else Gate()
    depth = g.pick(draw, [(None, 1), (None, 1), ("pkg_depth_2", 2), ("pkg_depth_3", 3)], fallback=1)
    out = ".".join(["cli"] + [f"sub{j}" for j in range(1, depth)])
    core_kind = g.pick(draw, [(None, "embedded"), (None, "embedded"), ("shared_core_1", 1), ("shared_core_2", 2), ("shared_core_3", 3),
                              ("shared_core_toplevel_core", "core"), ("shared_core_prefixed_sibling", "prefixed")], fallback="embedded")
    core = None
    if core_kind == "core":
        core = "core"
    elif core_kind == "prefixed":
        core = out + "_core"  # sibling whose directory name starts with the client package's
    elif core_kind != "embedded":
        core = ".".join(["shared", "rt", "corepkg"][3 - core_kind:]) if core_kind > 1 else "sharedcore"
    naming = g.pick(draw, [(None, "operationId"), (None, "operationId"), ("naming_clean", "clean"), ("naming_path", "path")], fallback="operationId")
    fmt = g.pick(draw, [(None, "json"), (None, "json"), ("fmt_yaml", "yaml"), ("fmt_yaml_int_status", "yaml_int")], fallback="json")
    return {"out": out, "core": core, "naming": naming, "fmt": fmt}


@st.composite
def cases(draw, gate: Gate | None = None, **kw) -> dict:
    return {"spec": draw(specs(gate, **kw)), "cfg": draw(configs(gate))}


# ---------------------------------------------------------------------------------------------
# soundness predicate used while shrinking (a shrunk witness must still be a valid OpenAPI document)


def is_valid_openapi(spec: dict) -> bool:
    try:
        from openapi_spec_validator import validate
    except ImportError:  # pragma: no cover
        from openapi_spec_validator import validate_spec as validate
    import copy

    try:
        validate(copy.deepcopy(spec))
    except Exception:
        return False
    # every path variable declared as a path parameter (operation or path level), and vice versa
    import re

    for path, item in (spec.get("paths") or {}).items():
        if not isinstance(item, dict):
            return False
        pl = [p for p in item.get("parameters", []) if isinstance(p, dict)]
        for m, op in item.items():
            if m not in METHODS:
                continue
            params = pl + [p for p in op.get("parameters", []) if isinstance(p, dict)]
            declared = {p.get("name") for p in params if p.get("in") == "path"}
            if declared != set(re.findall(r"{([^}]+)}", path)):
                return False
            if not op.get("responses"):
                return False
    return True


def valid_case(case: dict) -> bool:
    cfg = case.get("cfg") or {}

    def dotted(p):
        return isinstance(p, str) and p != "" and all(seg.isidentifier() for seg in p.split("."))

    if not dotted(cfg.get("out")) or cfg.get("naming") not in ("operationId", "clean", "path") or cfg.get("fmt") not in ("json", "yaml", "yaml_int"):
        return False
    if cfg.get("core") is not None and not dotted(cfg["core"]):
        return False
    return isinstance(case.get("spec"), dict) and is_valid_openapi(case["spec"])
