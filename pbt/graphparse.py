"""Instrumented runs of the real schema loader on a components.schemas dict (harness-side wrapping, no source hooks:
context.py looks unified_enter_schema / unified_exit_schema up in their module at call time, and build_schemas calls the
module-global `_parse_schema` of extractor.py for every top-level schema)."""

from __future__ import annotations

import contextlib
import logging
import warnings
from typing import Any


class BudgetExceeded(BaseException):
    pass


class Trace:
    def __init__(self) -> None:
        self.enters = 0
        self.exits = 0
        self.min_depth = 0
        self.depth = 0
        self.max_depth_seen = 0
        self.max_tracker_depth = 0
        self.after_top: list[tuple[str, int, list[str]]] = []  # (schema, recursion_depth, stack) after each top-level schema
        self.unbalanced_at: list[str] = []
        self.placeholder_over_in_progress: list[str] = []
        self.exc: BaseException | None = None
        self.context: Any = None
        self.recursion_error = False
        self.budget_exceeded = False


@contextlib.contextmanager
def instrumented(trace: Trace, budget: int):
    import pyopenapi_gen.core.loader.schemas.extractor as ext
    import pyopenapi_gen.core.parsing.unified_cycle_detection as ucd

    real_enter, real_exit, real_parse = ucd.unified_enter_schema, ucd.unified_exit_schema, ext._parse_schema

    def enter(name, ctx):
        trace.enters += 1
        trace.depth += 1
        trace.max_depth_seen = max(trace.max_depth_seen, trace.depth)
        if trace.enters > budget:
            trace.budget_exceeded = True
            raise BudgetExceeded()
        was = ctx.schema_states.get(name) if name else None
        res = real_enter(name, ctx)
        trace.max_tracker_depth = max(trace.max_tracker_depth, ctx.recursion_depth)
        if name and was == ucd.SchemaState.IN_PROGRESS and ctx.schema_states.get(name) in (
            ucd.SchemaState.PLACEHOLDER_CYCLE, ucd.SchemaState.PLACEHOLDER_SELF_REF):
            trace.placeholder_over_in_progress.append(name)  # attribution of lost-field counterexamples (C02)
        return res

    def exit_(name, ctx):
        trace.exits += 1
        trace.depth -= 1
        trace.min_depth = min(trace.min_depth, trace.depth)
        return real_exit(name, ctx)

    def top_parse(name, node, context, *a, **kw):
        try:
            return real_parse(name, node, context, *a, **kw)
        finally:
            u = context.unified_cycle_context
            trace.after_top.append((name, u.recursion_depth, list(u.schema_stack)))
            trace.context = context

    ucd.unified_enter_schema, ucd.unified_exit_schema, ext._parse_schema = enter, exit_, top_parse
    logging.disable(logging.CRITICAL)
    try:
        with warnings.catch_warnings():
            warnings.simplefilter("ignore")
            yield
    finally:
        logging.disable(logging.NOTSET)
        ucd.unified_enter_schema, ucd.unified_exit_schema, ext._parse_schema = real_enter, real_exit, real_parse


def build(schemas: dict, budget: int = 200000) -> Trace:
    """build_schemas() under instrumentation. Exceptions are captured in trace.exc (RecursionError flagged)."""
    from pyopenapi_gen.core.loader.schemas.extractor import build_schemas

    t = Trace()
    with instrumented(t, budget):
        try:
            t.context = build_schemas(schemas, {"schemas": schemas})
        except BudgetExceeded:
            pass
        except RecursionError as e:
            t.recursion_error = True
            t.exc = e
        except Exception as e:
            t.exc = e
    return t


_patched = False


def load_ir(spec: dict):
    """load_ir_from_spec without the (slow, warnings-only) openapi_spec_validator pass."""
    global _patched
    from pyopenapi_gen.core.loader import loader as L

    if not _patched:
        L.SpecLoader.validate = lambda self: []  # type: ignore[method-assign]
        _patched = True
    logging.disable(logging.CRITICAL)
    try:
        with warnings.catch_warnings():
            warnings.simplefilter("ignore")
            return L.load_ir_from_spec(spec)
    finally:
        logging.disable(logging.NOTSET)
