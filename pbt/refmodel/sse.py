"""Reference SSE / NDJSON readers written from the wording of property C18 (not from WHATWG, not from the code).

An *event model* is a list of blocks; a block is a list of lines; a line is
    ["data", text] | ["event", text] | ["id", text] | ["retry", int] | ["comment", text]
`render` turns (blocks, terminators, final_terminated) into bytes; `expected_events` says what a conforming
reader must yield for it:  one event per blank-line-terminated block, data lines joined by "\n", comment
lines ignored, last block delivered even when the stream ends without the blank line.
Texts never start with whitespace and never contain a str.splitlines() separator, so that neither the
"strip one leading space" vs. "strip all" question nor exotic line terminators are asserted on.
"""

from __future__ import annotations

import json
from typing import Any

SPLITLINES_SEPS = "\n\r\x0b\x0c\x1c\x1d\x1e\x85\u2028\u2029"


def render(blocks: list, terms: list[str], final_mode: int) -> bytes:
    """terms: cyclic list of line terminators ("\n", "\r\n", "\r") used line by line.
    final_mode: 2 = last block fully terminated (line terminator + blank line), 1 = last line terminated
    but no blank line, 0 = stream ends right after the last character of the last line."""
    out = []
    ti = 0

    def term() -> str:
        nonlocal ti
        t = terms[ti % len(terms)]
        ti += 1
        if out and out[-1] == "\r" and t == "\n":
            t = "\r\n"  # a lone CR directly followed by LF would read as ONE terminator (CRLF)
        return t

    for bi, block in enumerate(blocks):
        last_block = bi == len(blocks) - 1
        for li, (kind, val) in enumerate(block):
            out.append(":" + str(val) if kind == "comment" else f"{kind}: {val}")
            if last_block and li == len(block) - 1 and final_mode == 0:
                continue
            out.append(term())
        if last_block and final_mode < 2:
            continue
        out.append(term())  # blank line terminating the block
    return "".join(out).encode("utf-8")


def expected_events(blocks: list) -> list[dict]:
    evs = []
    for block in blocks:
        if not block:
            continue
        data, event, id_, retry = [], None, None, None
        for kind, val in block:
            if kind == "data":
                data.append(str(val))
            elif kind == "event":
                event = str(val)
            elif kind == "id":
                id_ = str(val)
            elif kind == "retry":
                retry = int(val)
        evs.append({"data": "\n".join(data), "event": event, "id": id_, "retry": retry})
    return evs


def render_ndjson(records: list, terms: list[str], blank_after: list[int], final_terminated: bool) -> bytes:
    out = []
    for i, rec in enumerate(records):
        out.append(json.dumps(rec, ensure_ascii=False, separators=(",", ":")))
        t = terms[i % len(terms)]
        if i == len(records) - 1 and not final_terminated:
            break
        out.append(t)
        if i in blank_after:
            out.append(t)
    return "".join(out).encode("utf-8")


def expected_ndjson(records: list) -> list[Any]:
    return list(records)
