"""Reference semantics of OpenAPI schemas, written from the OpenAPI/JSON-Schema meaning (independent of the generator):

resolve(node, schemas)        follow $ref chains
flatten(node, schemas)        object view of a schema: merged properties/required through allOf (own + inherited)
instances(node, schemas)      Hypothesis strategy of JSON documents that CONFORM to the schema
equal_modulo_tolerance(...)   the C03 relation: equal, except that an absent optional property may reappear as null or,
                              if array-/map-valued, as an empty container; date-times compare as (instant, offset)
"""

from __future__ import annotations

import base64
import datetime as _dt
from typing import Any

from hypothesis import strategies as st


def resolve(node: dict, schemas: dict, limit: int = 20) -> dict:
    seen = 0
    while isinstance(node, dict) and "$ref" in node and seen < limit:
        node = schemas.get(node["$ref"].rsplit("/", 1)[1], {})
        seen += 1
    return node if isinstance(node, dict) else {}


def ref_name(node: dict) -> str | None:
    if isinstance(node, dict) and isinstance(node.get("$ref"), str):
        return node["$ref"].rsplit("/", 1)[1]
    return None


def flatten(node: dict, schemas: dict, _depth: int = 0) -> dict | None:
    """{'properties': {...}, 'required': set} for object-like schemas (incl. allOf compositions), else None."""
    node = resolve(node, schemas)
    if _depth > 8:
        return None
    if "allOf" in node:
        props: dict[str, Any] = {}
        req: set[str] = set()
        for m in node["allOf"]:
            f = flatten(m, schemas, _depth + 1)
            if f is None:
                continue
            props.update(f["properties"])
            req |= f["required"]
        if "properties" in node:
            props.update(node["properties"])
            req |= set(node.get("required", []))
        return {"properties": props, "required": req}
    if "properties" in node or (node.get("type") == "object" and "additionalProperties" not in node):
        return {"properties": dict(node.get("properties", {})), "required": set(node.get("required", []))}
    return None


def kind_of(node: dict, schemas: dict) -> str:
    """string|integer|number|boolean|array|map|object|union|enum|any"""
    n = resolve(node, schemas)
    if "oneOf" in n or "anyOf" in n:
        return "union"
    if "enum" in n:
        return "enum"
    if "allOf" in n or "properties" in n:
        return "object"
    t = n.get("type")
    if isinstance(t, list):
        t = next((x for x in t if x != "null"), None)
    if t == "object":
        return "map" if n.get("additionalProperties") else "object"
    if t in ("string", "integer", "number", "boolean", "array"):
        return t
    return "any"


TEXTS = st.one_of(
    st.sampled_from(["", "a", "hello world", "é", "漢字", "x\ny", "null", "true", "123", "2020-01-01", " lead", "\"q\"", "\\"]),
    st.text(st.characters(blacklist_categories=("Cs",)), max_size=6),
)


def _scalar(n: dict) -> st.SearchStrategy:
    t = n.get("type")
    if isinstance(t, list):
        t = next((x for x in t if x != "null"), None)
    fmt = n.get("format")
    if "enum" in n:
        return st.sampled_from(n["enum"])
    if t == "string":
        if fmt == "date-time":
            return st.tuples(
                st.datetimes(min_value=_dt.datetime(1971, 1, 1), max_value=_dt.datetime(2100, 1, 1)),
                st.sampled_from(["Z", "+00:00", "+02:00", "-05:30"]),
                st.booleans(),
            ).map(lambda x: (x[0].replace(microsecond=0) if x[2] else x[0]).isoformat() + x[1])
        if fmt == "date":
            return st.dates(min_value=_dt.date(1900, 1, 1), max_value=_dt.date(2200, 12, 31)).map(lambda d: d.isoformat())
        if fmt == "uuid":
            return st.uuids().map(str)
        if fmt in ("byte", "binary"):
            return st.binary(max_size=10).map(lambda b: base64.b64encode(b).decode())
        return TEXTS
    if t == "integer":
        return st.one_of(st.integers(-100, 100), st.integers(-(2**62), 2**62))
    if t == "number":
        return st.one_of(st.floats(allow_nan=False, allow_infinity=False, width=32).map(float), st.integers(-50, 50).map(float),
                         st.sampled_from([0.5, -1.25, 1e10, 3.0]))
    if t == "boolean":
        return st.booleans()
    return st.one_of(st.integers(-3, 3), TEXTS, st.booleans(), st.lists(st.integers(0, 3), max_size=2),
                     st.dictionaries(st.sampled_from(["k", "j"]), st.integers(0, 3), max_size=2))


@st.composite
def instances(draw, node: dict, schemas: dict, depth: int = 4, allow_null: bool = True, union_pick=None) -> Any:
    n = resolve(node, schemas)
    # an enum constrains null too: nullable/"null" admits null only when the enum lists it (or there is no enum)
    null_ok = allow_null and ("enum" not in n or None in n["enum"])
    if null_ok and n.get("nullable") is True and draw(st.integers(0, 4)) == 0:
        return None
    if isinstance(n.get("type"), list) and "null" in n["type"] and null_ok and draw(st.integers(0, 4)) == 0:
        return None
    if "oneOf" in n or "anyOf" in n:
        variants = n.get("oneOf") or n.get("anyOf")
        i = draw(st.integers(0, len(variants) - 1)) if union_pick is None else union_pick
        return draw(instances(variants[i], schemas, depth - 1, allow_null, None))
    f = flatten(n, schemas)
    if f is not None:
        out = {}
        for k, pn in f["properties"].items():
            required = k in f["required"]
            rn = resolve(pn, schemas)
            recursive = depth <= 0
            if required or (not recursive and draw(st.booleans())):
                if depth <= -3:
                    # an infinite required chain cannot be instantiated; callers avoid such schemas (see satisfiable())
                    out[k] = None
                else:
                    out[k] = draw(instances(pn, schemas, depth - 1, allow_null))
        return out
    t = n.get("type")
    if isinstance(t, list):
        t = next((x for x in t if x != "null"), None)
    if t == "array":
        if depth <= 0:
            return []
        return draw(st.lists(instances(n.get("items", {}), schemas, depth - 1, allow_null), max_size=3))
    if t == "object" and n.get("additionalProperties"):
        ap = n["additionalProperties"]
        if depth <= 0:
            return {}
        vals = instances(ap, schemas, depth - 1, allow_null) if isinstance(ap, dict) else _scalar({})
        return draw(st.dictionaries(st.sampled_from(["k1", "k2", "é", "a b", "x-y", "Key"]), vals, max_size=3))
    return draw(_scalar(n))


def satisfiable(node: dict, schemas: dict, _stack: tuple = ()) -> bool:
    """False when a REQUIRED chain of references never bottoms out (A requires A): no finite instance exists."""
    name = ref_name(node)
    if name is not None:
        if name in _stack:
            return False
        return satisfiable(schemas.get(name, {}), schemas, _stack + (name,))
    n = node if isinstance(node, dict) else {}
    if "oneOf" in n or "anyOf" in n:
        return any(satisfiable(v, schemas, _stack) for v in (n.get("oneOf") or n.get("anyOf")))
    f = flatten(n, schemas)
    if f is not None:
        return all(satisfiable(p, schemas, _stack) for k, p in f["properties"].items() if k in f["required"])
    return True


# ---------------------------------------------------------------------------------------------
# the C03 equality relation


def _dt_key(s: str):
    try:
        d = _dt.datetime.fromisoformat(s.replace("Z", "+00:00"))
        return ("dt", d.timestamp() if d.tzinfo else d.isoformat(), str(d.utcoffset()))
    except Exception:
        return s


def describe(node: dict, schemas: dict) -> str:
    n = resolve(node, schemas)
    k = kind_of(n, schemas)
    if k == "string" and n.get("format"):
        k += "/" + str(n["format"])
    if n.get("nullable"):
        k += "?"
    return k


def diff(doc: Any, got: Any, node: dict, schemas: dict, path: str = "$") -> str | None:
    """None when `got` equals `doc` modulo the documented tolerances, else '<path>: <what> {<schema kind at that point>}'."""
    d = _diff(doc, got, node, schemas, path)
    return d


def _tag(msg: str, node: dict, schemas: dict) -> str:
    return msg + " {" + describe(node, schemas) + "}"


def _diff(doc: Any, got: Any, node: dict, schemas: dict, path: str = "$") -> str | None:
    n = resolve(node, schemas)
    if doc is None or got is None:
        return None if doc is got else _tag(f"{path}: {doc!r} != {got!r}", n, schemas)
    if "oneOf" in n or "anyOf" in n:
        errs = []
        for v in (n.get("oneOf") or n.get("anyOf")):
            d = _diff(doc, got, v, schemas, path)
            if d is None:
                return None
            errs.append(d)
        return errs[0] if errs else None
    f = flatten(n, schemas)
    if f is not None and isinstance(doc, dict):
        if not isinstance(got, dict):
            return _tag(f"{path}: expected object, got {type(got).__name__}", n, schemas)
        for k, v in doc.items():
            if k not in got:
                return _tag(f"{path}.{k}: key lost", f["properties"].get(k, {}), schemas)
            sub = f["properties"].get(k, {})
            d = _diff(v, got[k], sub, schemas, f"{path}.{k}")
            if d:
                return d
        for k, v in got.items():
            if k in doc:
                continue
            if k in f["properties"] and k not in f["required"]:
                kind = kind_of(f["properties"][k], schemas)
                if v is None or (kind in ("array", "map", "object", "any", "union") and v in ([], {})):
                    continue  # tolerated: absent optional came back as null / empty container
            return _tag(f"{path}.{k}: unexpected key {k!r}={v!r}", f["properties"].get(k, {}), schemas)
        return None
    t = n.get("type")
    if isinstance(t, list):
        t = next((x for x in t if x != "null"), None)
    if t == "array" and isinstance(doc, list):
        if not isinstance(got, list) or len(got) != len(doc):
            return _tag(f"{path}: list {doc!r} != {got!r}", n, schemas)
        for i, (a, b) in enumerate(zip(doc, got)):
            d = _diff(a, b, n.get("items", {}), schemas, f"{path}[{i}]")
            if d:
                return d
        return None
    if t == "object" and n.get("additionalProperties") and isinstance(doc, dict):
        if not isinstance(got, dict) or set(got) != set(doc):
            return _tag(f"{path}: map keys {sorted(doc)} != {sorted(got) if isinstance(got, dict) else got!r}", n, schemas)
        ap = n["additionalProperties"] if isinstance(n["additionalProperties"], dict) else {}
        for k in doc:
            d = _diff(doc[k], got[k], ap, schemas, f"{path}[{k!r}]")
            if d:
                return d
        return None
    if t == "string" and n.get("format") == "date-time" and isinstance(doc, str) and isinstance(got, str):
        return None if _dt_key(doc) == _dt_key(got) else _tag(f"{path}: date-time {doc!r} != {got!r}", n, schemas)
    if t == "number" and isinstance(doc, (int, float)) and isinstance(got, (int, float)) and not isinstance(doc, bool):
        return None if float(doc) == float(got) else _tag(f"{path}: {doc!r} != {got!r}", n, schemas)
    if isinstance(doc, bool) != isinstance(got, bool):
        return _tag(f"{path}: {doc!r} != {got!r}", n, schemas)
    return None if doc == got else _tag(f"{path}: {doc!r} != {got!r}", n, schemas)


def conforms(doc: Any, node: dict, schemas: dict, depth: int = 0) -> bool:
    """Structural conformance (types, required, enum, nullable, additionalProperties typing); used to keep shrunk witnesses
    inside the input domain and by the framework self-test (cross-checked against jsonschema there)."""
    n = resolve(node, schemas)
    if depth > 30:
        return True
    if doc is None:
        if "enum" in n and None not in n["enum"]:
            return False
        return bool(n.get("nullable")) or (isinstance(n.get("type"), list) and "null" in n["type"]) or n == {}
    if "oneOf" in n or "anyOf" in n:
        return any(conforms(doc, v, schemas, depth + 1) for v in (n.get("oneOf") or n.get("anyOf")))
    if "enum" in n:
        return doc in n["enum"]
    f = flatten(n, schemas)
    if f is not None:
        if not isinstance(doc, dict):
            return False
        if not f["required"] <= set(doc):
            return False
        return all(conforms(v, f["properties"][k], schemas, depth + 1) for k, v in doc.items() if k in f["properties"])
    t = n.get("type")
    if isinstance(t, list):
        t = next((x for x in t if x != "null"), None)
    if t == "array":
        return isinstance(doc, list) and all(conforms(v, n.get("items", {}), schemas, depth + 1) for v in doc)
    if t == "object":
        if not isinstance(doc, dict):
            return False
        ap = n.get("additionalProperties")
        return all(conforms(v, ap, schemas, depth + 1) for v in doc.values()) if isinstance(ap, dict) else True
    if t == "string":
        if not isinstance(doc, str):
            return False
        fmt = n.get("format")
        try:
            if fmt == "date-time":
                _dt.datetime.fromisoformat(doc.replace("Z", "+00:00"))
            elif fmt == "date":
                _dt.date.fromisoformat(doc)
            elif fmt == "uuid":
                import uuid

                return str(uuid.UUID(doc)) == doc
            elif fmt in ("byte", "binary"):
                return base64.b64encode(base64.b64decode(doc, validate=True)).decode() == doc
        except Exception:
            return False
        return True
    if t == "integer":
        return isinstance(doc, int) and not isinstance(doc, bool)
    if t == "number":
        return isinstance(doc, (int, float)) and not isinstance(doc, bool)
    if t == "boolean":
        return isinstance(doc, bool)
    return True
