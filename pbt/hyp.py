"""Hypothesis used as a seeded generator engine: draw n cases from a strategy, deterministic in (seed)."""
from __future__ import annotations

from typing import Any, Callable


def draw_cases(strategy, n: int, seed: int) -> list:
    import hypothesis
    from hypothesis import HealthCheck, Phase, given, settings

    out: list = []

    @hypothesis.seed(seed)
    @settings(max_examples=n, database=None, deadline=None, suppress_health_check=list(HealthCheck),
              phases=[Phase.generate], report_multiple_bugs=False, derandomize=False)
    @given(strategy)
    def collect(x):
        out.append(x)

    collect()
    return out


def run_cases(strategy, n: int, seed: int, body: Callable[[Any], None]) -> None:
    """Same, but calls body(case) inside the Hypothesis loop (body must not raise on property violations)."""
    import hypothesis
    from hypothesis import HealthCheck, Phase, given, settings

    @hypothesis.seed(seed)
    @settings(max_examples=n, database=None, deadline=None, suppress_health_check=list(HealthCheck),
              phases=[Phase.generate], report_multiple_bugs=False, derandomize=False)
    @given(strategy)
    def go(x):
        body(x)

    go()
