"""Shared runner mechanics: collectors, sharded execution, known findings, ddmin, evidence.

Every property module (pbt/props/cXX.py) exposes

    PROPERTY_ID, LEVEL, RULE, ASSUMPTIONS
    evaluate(case: dict) -> list[Violation]          # pure function of the JSON case and /repo's code
    shards(tier: str, seed: int) -> list[dict]       # JSON-able work items
    run_shard(shard: dict) -> dict                   # runs in a worker process, returns Collector.to_dict()
    MIN_NONTRIVIAL = {"quick": n, "thorough": n}     # fewer => harness error (vacuous run), exit 2

A property body never raises on a violation; it returns Violation records which are bucketed by
signature (root cause, not input).  After the campaign each bucket is attributed to a listed known
finding or minimised (JSON ddmin through `evaluate`) and reported.
"""

from __future__ import annotations

import hashlib
import json
import os
import shutil
import sys
import tempfile
import time
import traceback
from collections import Counter
from dataclasses import dataclass
from typing import Any, Callable, Iterable

VERIF = os.path.dirname(os.path.dirname(os.path.abspath(__file__)))
REPO = os.environ.get("VERIF_REPO", "/repo")


@dataclass(frozen=True)
class Violation:
    sig: tuple  # small tuple of strings identifying a root cause
    detail: str = ""


def canon(obj: Any) -> str:
    return json.dumps(obj, sort_keys=True, ensure_ascii=True, default=repr, separators=(",", ":"))


def chash(obj: Any) -> str:
    return hashlib.sha1(canon(obj).encode()).hexdigest()[:16]


class Collector:
    """Per-shard accumulator; mergeable; JSON-able."""

    MAX_SAMPLES = 5

    def __init__(self) -> None:
        self.evaluations = 0
        self.nontrivial: set[str] = set()
        self.classes: Counter = Counter()
        self.excluded: Counter = Counter()
        self.rejected = 0
        self.samples: list = []
        self.violations: dict[str, dict] = {}  # canon(sig) -> {sig, case, detail, count}
        self.extra: dict[str, Any] = {}
        self.exhaustive: bool | None = None
        self.nontrivial_extra = 0  # non-trivial cases counted in bulk (distinct by construction, see RULE)

    def bulk(self, evaluations: int, nontrivial: int, classes: dict | None = None, sample: Any = None) -> None:
        """Account for an exhaustively enumerated block whose cases are distinct by construction."""
        self.evaluations += evaluations
        self.nontrivial_extra += nontrivial
        for k, v in (classes or {}).items():
            self.classes[k] += v
        if sample is not None and len(self.samples) < self.MAX_SAMPLES:
            self.samples.append(sample)

    @property
    def n_nontrivial(self) -> int:
        return len(self.nontrivial) + self.nontrivial_extra

    def record(
        self,
        case: Any,
        viols: Iterable[Violation],
        nontrivial: bool,
        classes: Iterable[str] = (),
        sample: Any = None,
        key: Any = None,
    ) -> None:
        self.evaluations += 1
        for c in classes:
            self.classes[c] += 1
        if nontrivial:
            h = chash(key if key is not None else case)
            if h not in self.nontrivial:
                self.nontrivial.add(h)
                if len(self.samples) < self.MAX_SAMPLES:
                    self.samples.append(sample if sample is not None else case)
        for v in viols:
            self.add_violation(v, case)

    def add_violation(self, v: Violation, case: Any) -> None:
        k = canon(list(v.sig))
        b = self.violations.get(k)
        if b is None:
            self.violations[k] = {"sig": list(v.sig), "case": case, "detail": v.detail[:4000], "count": 1}
        else:
            b["count"] += 1
            # keep the smallest witness
            if len(canon(case)) < len(canon(b["case"])):
                b["case"] = case
                b["detail"] = v.detail[:4000]

    def to_dict(self) -> dict:
        return {
            "evaluations": self.evaluations,
            "nontrivial": sorted(self.nontrivial),
            "nontrivial_extra": self.nontrivial_extra,
            "classes": dict(self.classes),
            "excluded": dict(self.excluded),
            "rejected": self.rejected,
            "samples": self.samples,
            "violations": self.violations,
            "extra": self.extra,
            "exhaustive": self.exhaustive,
        }

    def merge_dict(self, d: dict) -> None:
        self.evaluations += d["evaluations"]
        self.nontrivial.update(d["nontrivial"])
        self.nontrivial_extra += d.get("nontrivial_extra", 0)
        self.classes.update(d["classes"])
        self.excluded.update(d["excluded"])
        self.rejected += d["rejected"]
        for s in d["samples"]:
            if len(self.samples) < self.MAX_SAMPLES:
                self.samples.append(s)
        for k, b in d["violations"].items():
            mine = self.violations.get(k)
            if mine is None:
                self.violations[k] = dict(b)
            else:
                mine["count"] += b["count"]
                if len(canon(b["case"])) < len(canon(mine["case"])):
                    mine["case"] = b["case"]
                    mine["detail"] = b["detail"]
        for k, v in d.get("extra", {}).items():
            if isinstance(v, (int, float)) and isinstance(self.extra.get(k), (int, float)):
                self.extra[k] += v
            elif isinstance(v, list) and isinstance(self.extra.get(k), list):
                self.extra[k] = (self.extra[k] + v)[:6]
            elif isinstance(v, dict) and isinstance(self.extra.get(k), dict):
                for kk, vv in v.items():
                    if isinstance(vv, (int, float)):
                        self.extra[k][kk] = self.extra[k].get(kk, 0) + vv
                    else:
                        self.extra[k].setdefault(kk, vv)
            else:
                self.extra.setdefault(k, v)
        if d.get("exhaustive") is not None:
            self.exhaustive = d["exhaustive"] if self.exhaustive is None else (self.exhaustive and d["exhaustive"])


# ---------------------------------------------------------------------------------------------
# scratch handling

_SCRATCH_ROOT: str | None = None


def scratch_base() -> str:
    base = os.environ.get("VERIF_SCRATCH")
    if base:
        os.makedirs(base, exist_ok=True)
        return base
    for cand in ("/dev/shm", "/var/tmp"):
        if os.path.isdir(cand) and os.access(cand, os.W_OK):
            return cand
    return tempfile.gettempdir()


def make_scratch_root(prop: str) -> str:
    global _SCRATCH_ROOT
    _SCRATCH_ROOT = tempfile.mkdtemp(prefix=f"verif-{prop}-", dir=scratch_base())
    os.environ["VERIF_SCRATCH_ROOT"] = _SCRATCH_ROOT
    return _SCRATCH_ROOT


def worker_scratch(tag: str = "") -> str:
    """Per-process scratch dir; also redirects TMPDIR there (the generator appends debug logs to it)."""
    root = os.environ.get("VERIF_SCRATCH_ROOT") or make_scratch_root("adhoc")
    d = os.path.join(root, f"w{os.getpid()}{tag}")
    os.makedirs(d, exist_ok=True)
    tmp = os.path.join(d, "tmp")
    os.makedirs(tmp, exist_ok=True)
    os.environ["TMPDIR"] = tmp
    tempfile.tempdir = tmp
    return d


def truncate_generator_logs() -> None:
    tmp = tempfile.gettempdir()
    for n in ("pyopenapi_gen_file_write_debug.log", "pyopenapi_gen_error.log", "pyopenapi_gen_mocks_error.log"):
        p = os.path.join(tmp, n)
        try:
            if os.path.exists(p):
                open(p, "w").close()
        except OSError:
            pass


def cleanup_scratch() -> None:
    root = os.environ.get("VERIF_SCRATCH_ROOT")
    if root and os.path.isdir(root):
        shutil.rmtree(root, ignore_errors=True)


# ---------------------------------------------------------------------------------------------
# sharded execution


def _worker_entry(args: tuple) -> dict:
    modname, shard = args
    import faulthandler
    import importlib

    # harness watchdog only: a shard that exceeds it dumps its stack and exits; the run is then INCONCLUSIVE (exit 2),
    # never a violation (termination as a property is decided by event budgets, see C08)
    limit = int(os.environ.get("VERIF_SHARD_TIMEOUT", "1500"))
    faulthandler.dump_traceback_later(limit, exit=True)
    try:
        worker_scratch()
        mod = importlib.import_module(modname)
        return {"ok": True, "result": mod.run_shard(shard)}
    except BaseException as e:  # harness error inside a worker
        return {"ok": False, "error": f"{type(e).__name__}: {e}\n{traceback.format_exc()}", "shard": shard}
    finally:
        faulthandler.cancel_dump_traceback_later()


def run_shards(modname: str, shards: list[dict], procs: int = 16) -> tuple[Collector, list[str]]:
    import multiprocessing as mp
    from concurrent.futures import ProcessPoolExecutor
    from concurrent.futures.process import BrokenProcessPool

    col = Collector()
    errors: list[str] = []
    if not shards:
        return col, errors
    procs = max(1, min(procs, len(shards), int(os.environ.get("VERIF_PROCS", "16"))))
    if procs == 1:
        for sh in shards:
            r = _worker_entry((modname, sh))
            if r["ok"]:
                col.merge_dict(r["result"])
            else:
                errors.append(r["error"])
        return col, errors
    ctx = mp.get_context("spawn")
    with ProcessPoolExecutor(max_workers=procs, mp_context=ctx) as ex:
        futs = [(sh, ex.submit(_worker_entry, (modname, sh))) for sh in shards]
        for sh, fut in futs:
            try:
                r = fut.result()
            except BrokenProcessPool:
                errors.append(f"worker died or exceeded the harness watchdog while running shard {sh} (stack dumped on stderr if it was the watchdog)")
                continue
            except Exception as e:
                errors.append(f"shard {sh}: {type(e).__name__}: {e}")
                continue
            if r["ok"]:
                col.merge_dict(r["result"])
            else:
                errors.append(r["error"])
    return col, errors


def _shrink_entry(args: tuple) -> dict:
    modname, case, target, budget = args
    import importlib

    try:
        worker_scratch()
        mod = importlib.import_module(modname)

        valid = getattr(mod, "valid_case", None)

        def still(c):
            if valid is not None and not valid(c):
                return False  # shrinking must stay inside the sound input domain
            return any(list(v.sig) == target for v in mod.evaluate(c))

        if not any(list(v.sig) == target for v in mod.evaluate(case)):
            return {"case": case, "reproduced": False, "evals": 1}
        small, evals = ddmin(case, still, budget_s=budget)
        return {"case": small, "reproduced": True, "evals": evals}
    except BaseException as e:
        return {"case": case, "reproduced": False, "evals": 0, "error": f"{type(e).__name__}: {e}"}


def shrink_buckets(modname: str, buckets: list[dict], total_budget_s: float, procs: int = 16) -> list[dict]:
    """Minimise each bucket's case in parallel worker processes; total wall budget is bounded."""
    import multiprocessing as mp

    if not buckets:
        return []
    procs = max(1, min(procs, len(buckets), int(os.environ.get("VERIF_PROCS", "16"))))
    rounds = (len(buckets) + procs - 1) // procs
    per = max(5.0, total_budget_s / rounds)
    ctx = mp.get_context("spawn")
    with ctx.Pool(procs) as pool:
        return pool.map(_shrink_entry, [(modname, b["case"], b["sig"], per) for b in buckets])


# ---------------------------------------------------------------------------------------------
# known findings


def load_known_findings(prop: str) -> list[dict]:
    p = os.path.join(VERIF, "known_findings.json")
    if not os.path.exists(p):
        return []
    with open(p) as f:
        data = json.load(f)
    return [e for e in data.get("findings", []) if e.get("property") == prop]


def sig_matches(pattern: list, sig: list) -> bool:
    """A listed signature matches a bucket signature when equal element-wise ('*' = wildcard element)."""
    if len(pattern) != len(sig):
        return False
    return all(p == "*" or p == s for p, s in zip(pattern, sig))


# ---------------------------------------------------------------------------------------------
# ddmin over JSON cases


def _children(case: Any, path: tuple = ()) -> Iterable[tuple]:
    """Yield candidate (path, op) reductions, biggest first."""
    if isinstance(case, dict):
        for k in list(case.keys()):
            yield (path, "delkey", k)
        for k, v in case.items():
            yield from _children(v, path + (k,))
    elif isinstance(case, list):
        for i in range(len(case) - 1, -1, -1):
            yield (path, "delidx", i)
        for i, v in enumerate(case):
            yield from _children(v, path + (i,))
    elif isinstance(case, str) and len(case) > 1:
        yield (path, "shorten", None)
    elif isinstance(case, int) and not isinstance(case, bool) and case not in (0, 1):
        yield (path, "zero", None)


def _apply(case: Any, path: tuple, op: str, arg: Any) -> Any:
    import copy

    new = copy.deepcopy(case)
    if not path:
        tgt_parent, key = None, None
        tgt = new
    else:
        tgt_parent = new
        for p in path[:-1]:
            tgt_parent = tgt_parent[p]
        key = path[-1]
        tgt = tgt_parent[key]
    if op == "delkey":
        del tgt[arg]
    elif op == "delidx":
        del tgt[arg]
    elif op == "shorten":
        val = tgt[: max(1, len(tgt) // 2)]
        if tgt_parent is None:
            return val
        tgt_parent[key] = val
    elif op == "zero":
        if tgt_parent is None:
            return 0
        tgt_parent[key] = 0
    return new


def ddmin(case: Any, still_fails: Callable[[Any], bool], budget_s: float = 60.0, max_evals: int = 1500) -> tuple[Any, int]:
    """Greedy structural minimisation of a JSON case. Returns (smaller case, evaluations used)."""
    t0 = time.time()
    evals = 0
    improved = True
    while improved and time.time() - t0 < budget_s and evals < max_evals:
        improved = False
        for path, op, arg in list(_children(case)):
            if time.time() - t0 >= budget_s or evals >= max_evals:
                break
            try:
                cand = _apply(case, path, op, arg)
            except (KeyError, IndexError, TypeError):
                continue
            if canon(cand) == canon(case):
                continue
            evals += 1
            try:
                ok = still_fails(cand)
            except Exception:
                ok = False
            if ok:
                case = cand
                improved = True
                break
    return case, evals


# ---------------------------------------------------------------------------------------------
# evidence


def write_evidence(prop: str, tier: str, seed: int, level: str, col: Collector, rule: str, assumptions: list[str],
                   wall_s: float, n_violations: int, known: list[str], extra: dict | None = None) -> str:
    cov: dict[str, Any] = {
        "evaluations": col.evaluations,
        "distinct_nontrivial": col.n_nontrivial,
        "rule": rule,
        "samples": col.samples[: Collector.MAX_SAMPLES],
        "classes": dict(sorted(col.classes.items())),
        "excluded_by_construction": dict(sorted(col.excluded.items())),
        "rejected_by_generator": col.rejected,
        "known_findings_reported": known,
        "buckets": [
            {"sig": b["sig"], "count": b["count"]} for b in sorted(col.violations.values(), key=lambda b: canon(b["sig"]))
        ],
    }
    if col.exhaustive is not None:
        cov["exhaustive"] = bool(col.exhaustive)
    for k, v in sorted(col.extra.items()):
        cov.setdefault(k, v)
    if extra:
        cov.update(extra)
    ev = {
        "property_id": prop,
        "tier": tier,
        "seed": seed,
        "level": level,
        "coverage": cov,
        "assumptions": assumptions,
        "wall_s": round(wall_s, 2),
        "violations": n_violations,
    }
    # VERIF_EVIDENCE_DIR: diagnostics only (tools/seedsweep.sh runs checks against a deliberately broken scratch tree and must
    # not overwrite the evidence of /repo); registered commands never set it
    ev_dir = os.environ.get("VERIF_EVIDENCE_DIR") or os.path.join(VERIF, "evidence")
    os.makedirs(ev_dir, exist_ok=True)
    path = os.path.join(ev_dir, f"{prop}.json")
    tmp = path + ".tmp"
    with open(tmp, "w") as f:
        json.dump(ev, f, indent=1, sort_keys=True, default=repr, ensure_ascii=True)
        f.write("\n")
    os.replace(tmp, path)
    return path


def eprint(*a: Any) -> None:
    print(*a, file=sys.stderr, flush=True)
