"""Drive a generated client against an in-memory server (httpx.MockTransport), behaviourally.

Session(res)                    context manager: imports the generated package, builds APIClient over
                                 (a) the bundled HttpxTransport wired to a MockTransport handler, or
                                 (b) a custom transport that returns every response unraised
session.operations()            spec operations after path-level/operation-level parameter merge (OpenAPI semantics)
session.tag_clients()           {attribute name: tag client object} reachable as properties of APIClient
session.methods(client)         {name: bound coroutine/async-generator method}
session.discover()              {(HTTP method, path template): [(tag attr, method name)]} found by CALLING every method with
                                 probe arguments and looking at the request it issues  (no name rule involved)
session.call(fn, kwargs)        awaits / iterates the method, returns Outcome(value | items | exception, requests)
"""

from __future__ import annotations

import asyncio
import dataclasses
import datetime as _dt
import enum
import inspect
import re
import typing
import uuid
import warnings
from typing import Any

from . import genrun

METHODS = ["get", "post", "put", "patch", "delete", "head", "options", "trace"]
_loop = None


def loop():
    global _loop
    if _loop is None or _loop.is_closed():
        _loop = asyncio.new_event_loop()
        import atexit

        atexit.register(_loop.close)
    return _loop


@dataclasses.dataclass
class Outcome:
    value: Any = None
    items: list | None = None
    exc: BaseException | None = None
    requests: list = dataclasses.field(default_factory=list)
    raw_kwargs: list = dataclasses.field(default_factory=list)


def spec_operations(spec: dict) -> list[dict]:
    """[{path, method, op, params:[param objects after merge], tags}]"""
    out = []
    comp_params = (spec.get("components") or {}).get("parameters") or {}

    def deref(p):
        if isinstance(p, dict) and "$ref" in p:
            return comp_params.get(p["$ref"].rsplit("/", 1)[1], {})
        return p

    for path, item in (spec.get("paths") or {}).items():
        if not isinstance(item, dict):
            continue
        base = [deref(p) for p in item.get("parameters", [])]
        for m, op in item.items():
            if m.lower() not in METHODS or not isinstance(op, dict):
                continue
            merged: dict[tuple, dict] = {}
            for p in base:
                merged[(p.get("in"), p.get("name"))] = p
            for p in [deref(q) for q in op.get("parameters", [])]:
                merged[(p.get("in"), p.get("name"))] = p
            for var in re.findall(r"{([^}]+)}", path):
                if ("path", var) not in merged:  # template variable without a declaration: the generator adds a string argument
                    merged[("path", var)] = {"name": var, "in": "path", "required": True, "schema": {"type": "string"}, "x-implicit": True}
            out.append({"path": path, "method": m.upper(), "op": op, "params": list(merged.values()), "tags": op.get("tags") or []})
    return out


def path_regex(template: str) -> re.Pattern:
    parts = re.split(r"({[^}]+})", template)
    rx = "".join("([^/]+)" if p.startswith("{") else re.escape(p) for p in parts)
    return re.compile("^" + rx + "/?$")


def match_operation(ops: list[dict], method: str, url_path: str) -> dict | None:
    best = None
    for o in ops:
        if o["method"] != method:
            continue
        if path_regex(o["path"]).match(url_path) or path_regex(o["path"]).match(url_path.rstrip("/") or "/"):
            literal = len(re.sub(r"{[^}]+}", "", o["path"]))
            if best is None or literal > best[0]:
                best = (literal, o)
    return best[1] if best else None


class Session:
    def __init__(self, res: genrun.GenResult, spec: dict, transport: str = "bundled", responder=None):
        self.res = res
        self.spec = spec
        self.transport_kind = transport
        self.responder = responder  # callable(request) -> httpx.Response
        self.requests: list = []
        self.raw_kwargs: list = []
        self._cm = None
        self.api = None

    # -- lifecycle ------------------------------------------------------------------------
    def __enter__(self):
        import httpx

        self._cm = genrun.load_package(self.res)
        self._cm.__enter__()
        try:
            self.client_mod = genrun.import_module_of(self.res, "client")
            self.cfg_mod = genrun.core_module_of(self.res, "config")
            self.ht_mod = genrun.core_module_of(self.res, "http_transport")
            self.exc_mod = genrun.core_module_of(self.res, "exceptions")
            self.conv_mod = genrun.core_module_of(self.res, "cattrs_converter")
            try:
                self.models_mod = genrun.import_module_of(self.res, "models")
            except Exception:
                self.models_mod = None

            def handler(request: httpx.Request) -> httpx.Response:
                self.requests.append(request)
                if self.responder is not None:
                    return self.responder(request)
                return httpx.Response(200, json={})

            base = "https://api.test/base" if False else "https://api.test"
            self.base_url = base
            if self.transport_kind == "bundled":
                real = httpx.AsyncClient

                def factory(*a, **kw):
                    kw["transport"] = httpx.MockTransport(handler)
                    return real(*a, **kw)

                self.ht_mod.httpx.AsyncClient = factory  # type: ignore[misc]
                try:
                    transport = self.ht_mod.HttpxTransport(base)
                finally:
                    self.ht_mod.httpx.AsyncClient = real  # type: ignore[misc]
            else:
                outer = self

                class Unraised:
                    """Custom transport: hands every response back unraised (non-2xx included); records raw kwargs."""

                    def __init__(self):
                        self._c = httpx.AsyncClient(base_url=base, transport=httpx.MockTransport(handler))

                    async def request(self, method, url, **kwargs):
                        outer.raw_kwargs.append({"method": method, "url": url, **kwargs})
                        with warnings.catch_warnings():
                            warnings.simplefilter("ignore")
                            return await self._c.request(method, url, **kwargs)

                    async def close(self):
                        await self._c.aclose()

                transport = Unraised()
            self._transport = transport
            self.api = self.client_mod.APIClient(self.cfg_mod.ClientConfig(base_url=base), transport=transport)
        except BaseException:
            self._cm.__exit__(None, None, None)
            raise
        return self

    def __exit__(self, *a):
        try:
            loop().run_until_complete(self._transport.close())
        except Exception:
            pass
        return self._cm.__exit__(*a)

    # -- introspection ----------------------------------------------------------------------
    def tag_clients(self) -> dict[str, Any]:
        out = {}
        for name, attr in inspect.getmembers(type(self.api), lambda a: isinstance(a, property)):
            if name.startswith("__"):
                continue
            try:
                out[name] = getattr(self.api, name)
            except Exception as e:  # a broken property is reported by the caller
                out[name] = e
        return out

    @staticmethod
    def methods(client: Any) -> dict[str, Any]:
        out = {}
        for name, fn in inspect.getmembers(client, callable):
            if name.startswith("_") and not re.match(r"_\d", name):  # digit-leading names are derived with a leading underscore
                continue
            f = getattr(fn, "__func__", fn)
            if inspect.iscoroutinefunction(f) or inspect.isasyncgenfunction(f):
                out[name] = fn
        return out

    # -- calling ------------------------------------------------------------------------------
    def call(self, fn, kwargs: dict, max_items: int = 1000) -> Outcome:
        n0, k0 = len(self.requests), len(self.raw_kwargs)
        out = Outcome()

        async def run():
            with warnings.catch_warnings():
                warnings.simplefilter("ignore")
                r = fn(**kwargs)
                if inspect.isasyncgen(r):
                    items = []
                    async for it in r:
                        items.append(it)
                        if len(items) >= max_items:
                            break
                    out.items = items
                else:
                    out.value = await r

        try:
            loop().run_until_complete(run())
        except BaseException as e:
            if isinstance(e, (KeyboardInterrupt, SystemExit)):
                raise
            out.exc = e
        out.requests = self.requests[n0:]
        out.raw_kwargs = self.raw_kwargs[k0:]
        return out

    # -- probe values --------------------------------------------------------------------------
    def probe_value(self, annotation: Any, name: str = "", _depth: int = 0) -> Any:
        """A plausible value for a signature annotation (used only to provoke the request during discovery)."""
        tp = annotation
        origin = typing.get_origin(tp)
        if _depth > 6:
            # recursion cut-off (self-referential models): the smallest value of the right shape
            return [] if origin in (list, typing.List) else ({} if origin is dict else None)
        if origin is typing.Annotated:
            return self.probe_value(typing.get_args(tp)[0], name, _depth + 1)
        if origin is typing.Union or str(origin) == "<class 'types.UnionType'>":
            args = [a for a in typing.get_args(tp) if a is not type(None)]
            return self.probe_value(args[0], name, _depth + 1) if args else None
        if origin in (list, typing.List):
            (a,) = typing.get_args(tp) or (str,)
            return [self.probe_value(a, name, _depth + 1)]
        if origin is dict:
            return {}
        if origin is typing.Literal:
            return typing.get_args(tp)[0]
        if tp is typing.Any or tp is inspect.Parameter.empty:
            return "x"
        if isinstance(tp, type):
            if issubclass(tp, enum.Enum):
                return list(tp)[0]
            if tp is bool:
                return True
            if tp is int:
                return 7
            if tp is float:
                return 1.5
            if tp is str:
                return "pv"
            if tp is bytes:
                return b"pb"
            if tp is _dt.datetime:
                return _dt.datetime(2020, 1, 2, 3, 4, 5, tzinfo=_dt.timezone.utc)
            if tp is _dt.date:
                return _dt.date(2020, 1, 2)
            if tp is uuid.UUID:
                return uuid.UUID(int=7)
            if dataclasses.is_dataclass(tp):
                kw = {}
                try:
                    hints = typing.get_type_hints(tp)
                except Exception:
                    hints = {}
                for f in dataclasses.fields(tp):
                    if f.default is dataclasses.MISSING and f.default_factory is dataclasses.MISSING and f.init:
                        kw[f.name] = self.probe_value(hints.get(f.name, str), f.name, _depth + 1)
                return tp(**kw)
        return "x"

    def probe_kwargs(self, fn) -> dict:
        f = getattr(fn, "__func__", fn)
        sig = inspect.signature(fn)
        try:
            hints = typing.get_type_hints(f)
        except Exception:
            hints = {}
        kw = {}
        for name, p in sig.parameters.items():
            if p.kind in (p.VAR_KEYWORD, p.VAR_POSITIONAL):
                continue
            ann = hints.get(name, p.annotation)
            if p.default is not inspect.Parameter.empty and not self._is_body_like(name):
                continue  # optional: leave unset during discovery
            if name == "content_type":
                continue
            kw[name] = self.probe_value(ann, name)
        return kw

    @staticmethod
    def _is_body_like(name: str) -> bool:
        return name in ("body", "files", "form_data", "bytes_content")

    def discover(self) -> tuple[dict, list[dict]]:
        """Calls every public method of every tag client with probe arguments.
        Returns ({(METHOD, path template): [(tag attr, method name)]}, problems)."""
        ops = spec_operations(self.spec)
        found: dict[tuple, list] = {}
        problems: list[dict] = []
        saved = self.responder
        import httpx

        self.responder = lambda request: httpx.Response(599, text="probe")  # make every probe fail fast after the request
        try:
            for attr, client in sorted(self.tag_clients().items()):
                if isinstance(client, Exception):
                    problems.append({"kind": "tag_property_raises", "tag": attr, "error": repr(client)})
                    continue
                for mname, fn in sorted(self.methods(client).items()):
                    kw = self.probe_kwargs(fn)
                    f = getattr(fn, "__func__", fn)
                    sig = inspect.signature(fn)
                    # overloads: a multi-content method needs exactly one body-like argument
                    bodyish = [n for n in sig.parameters if self._is_body_like(n)]
                    if len(bodyish) > 1:
                        for n in bodyish[1:]:
                            kw.pop(n, None)
                    out = self.call(fn, kw)
                    if not out.requests and isinstance(out.exc, TypeError):
                        # e.g. a non-string header value: retry the probe with stringified scalars (C04 judges such arguments)
                        kw2 = {k: (str(v).lower() if isinstance(v, bool) else str(v)) if isinstance(v, (int, float)) else v for k, v in kw.items()}
                        out = self.call(fn, kw2)
                    if len(out.requests) != 1:
                        problems.append({"kind": "no_single_request", "tag": attr, "method": mname, "n": len(out.requests), "error": repr(out.exc)[:300]})
                        continue
                    req = out.requests[0]
                    op = match_operation(ops, req.method, req.url.path)
                    if op is None:
                        problems.append({"kind": "request_matches_no_operation", "tag": attr, "method": mname, "request": f"{req.method} {req.url.path}"})
                        continue
                    found.setdefault((op["method"], op["path"]), []).append((attr, mname))
        finally:
            self.responder = saved
        return found, problems
