"""Run the real generator on a case and load its output.

generate(case, root)            -> GenResult (files, rejected?, error)
compile_all(result)             -> [(relpath, SyntaxError text)]
child_import(batch, block=True) -> per-package import report from a FRESH interpreter with a meta-path blocker for
                                   the generator and generator-only dependencies
load_package(result)            -> context manager importing the package in-process under its unique name, purging after
"""

from __future__ import annotations

import contextlib
import importlib
import io
import json
import logging
import os
import shutil
import subprocess
import sys
import warnings
from dataclasses import dataclass, field
from typing import Any, Iterator

from . import runner

_counter = 0

# modules that exist only to serve the generator; a generated client must not need them (C01, C12)
BLOCKED_TOP_LEVEL = [
    "pyopenapi_gen", "yaml", "openapi_spec_validator", "openapi_schema_validator", "jsonschema", "jsonschema_path",
    "jsonschema_specifications", "referencing", "typer", "click", "black", "ruff", "dataclass_wizard", "rich",
    "pathable", "lazy_object_proxy", "rfc3339_validator", "isodate", "mypy", "pytest", "hypothesis",
]


@dataclass
class GenResult:
    root: str                   # project root
    out_pkg: str                # dotted
    core_pkg: str               # dotted (resolved)
    ok: bool = False
    error: str | None = None    # rejection: generate_client raised
    error_type: str | None = None
    files: list[str] = field(default_factory=list)       # paths relative to root
    warnings: list[str] = field(default_factory=list)
    spec_path: str = ""

    @property
    def out_dir(self) -> str:
        return os.path.join(self.root, *self.out_pkg.split("."))

    @property
    def core_dir(self) -> str:
        return os.path.join(self.root, *self.core_pkg.split("."))


def unique_prefix() -> str:
    global _counter
    _counter += 1
    return f"g{os.getpid()}_{_counter}"


def write_spec(spec: dict, path_base: str, fmt: str = "json", yaml_int_status: bool = False) -> str:
    if fmt in ("yaml", "yaml_int"):
        import copy

        import yaml

        p = path_base + ".yaml"
        doc = spec
        if fmt == "yaml_int":
            # the same document as many hand-written YAML files spell it: unquoted numeric status codes (200: instead of '200':)
            doc = copy.deepcopy(spec)
            for item in (doc.get("paths") or {}).values():
                for m, op in (item.items() if isinstance(item, dict) else []):
                    if isinstance(op, dict) and isinstance(op.get("responses"), dict):
                        op["responses"] = {(int(k) if isinstance(k, str) and k.isdigit() else k): v for k, v in op["responses"].items()}
        with open(p, "w") as f:
            yaml.safe_dump(doc, f, sort_keys=False, allow_unicode=True)
        return p
    p = path_base + ".json"
    with open(p, "w") as f:
        json.dump(spec, f)
    return p


def generate(case: dict, root: str | None = None, force: bool = True, prefix: str | None = None, quiet: bool = True,
             spec_path: str | None = None) -> GenResult:
    """Calls pyopenapi_gen.generate_client exactly as a library user would (spec goes through a file => fetch_spec)."""
    from pyopenapi_gen import generate_client
    from pyopenapi_gen.ir import NamingStrategy

    cfg = case.get("cfg") or {}
    if root is None:
        root = os.path.join(runner.worker_scratch(), unique_prefix())
    os.makedirs(root, exist_ok=True)
    pfx = prefix if prefix is not None else cfg.get("prefix", "")
    out_pkg = (pfx + cfg.get("out", "cli")) if pfx else cfg.get("out", "cli")
    core = cfg.get("core")
    core_pkg = (pfx + core) if (core and pfx) else core
    res = GenResult(root=root, out_pkg=out_pkg, core_pkg=core_pkg or out_pkg + ".core")
    if spec_path is None:
        spec_path = write_spec(case["spec"], os.path.join(root, "_spec"), cfg.get("fmt", "json"))
    res.spec_path = spec_path
    naming = {"operationId": NamingStrategy.OPERATION_ID, "clean": NamingStrategy.CLEAN, "path": NamingStrategy.PATH}[cfg.get("naming", "operationId")]
    logging.disable(logging.CRITICAL)
    buf = io.StringIO()
    try:
        with warnings.catch_warnings(record=True) as wlist, contextlib.redirect_stdout(buf), contextlib.redirect_stderr(buf):
            warnings.simplefilter("always")
            files = generate_client(
                spec_path=spec_path, project_root=root, output_package=out_pkg, core_package=core_pkg, force=force,
                no_postprocess=True, naming_strategy=naming,
            )
        res.ok = True
        res.files = sorted(os.path.relpath(str(p), root) for p in files)
        res.warnings = [str(w.message) for w in wlist]
    except Exception as e:  # a rejection (GenerationError or anything else): generation did not "return without error"
        res.ok = False
        res.error = f"{type(e).__name__}: {e}"[:2000]
        res.error_type = type(e).__name__
    finally:
        logging.disable(logging.NOTSET)
    return res


def list_py_files(res: GenResult) -> list[str]:
    out = []
    for base in {res.out_dir, res.core_dir}:
        for dp, dn, fn in os.walk(base):
            for f in fn:
                if f.endswith(".py"):
                    out.append(os.path.relpath(os.path.join(dp, f), res.root))
    return sorted(set(out))


def compile_all(res: GenResult) -> list[tuple[str, str]]:
    errs = []
    for rel in list_py_files(res):
        p = os.path.join(res.root, rel)
        try:
            with open(p, encoding="utf-8") as f:
                src = f.read()
            compile(src, p, "exec", dont_inherit=True)
        except SyntaxError as e:
            errs.append((rel, f"SyntaxError: {e.msg} (line {e.lineno}): {(e.text or '').strip()[:160]}"))
        except Exception as e:
            errs.append((rel, f"{type(e).__name__}: {e}"))
    return errs


def cleanup(res: GenResult) -> None:
    shutil.rmtree(res.root, ignore_errors=True)


# ---------------------------------------------------------------------------------------------
# fresh-interpreter import (C01, C11, C12)

CHILD_SRC = r'''
import sys, json, importlib, pkgutil, os, traceback
BLOCK = set(json.loads(sys.argv[1]))
class _Blocker:
    def find_spec(self, name, path=None, target=None):
        if name.split(".")[0] in BLOCK:
            raise ModuleNotFoundError("No module named %r (blocked: generator-only dependency)" % name, name=name)
        return None
sys.meta_path.insert(0, _Blocker())
for m in list(sys.modules):
    if m.split(".")[0] in BLOCK:
        del sys.modules[m]
jobs = json.loads(sys.stdin.read())
out = []
def norm(e):
    return "%s: %s" % (type(e).__name__, e)
for job in jobs:
    root = job["root"]; sys.path.insert(0, root)
    rep = {"root": root, "modules": 0, "errors": []}
    for pkg in job["packages"]:
        try:
            top = importlib.import_module(pkg)
        except BaseException as e:
            rep["errors"].append({"module": pkg, "stage": "import", "error": norm(e), "tb": traceback.format_exc()[-1500:]})
            continue
        rep["modules"] += 1
        def onerr(name):
            pass
        for mi in pkgutil.walk_packages(top.__path__, prefix=pkg + ".", onerror=onerr):
            if mi.name in sys.modules and getattr(sys.modules[mi.name], "__spec__", None) is not None and not job.get("reimport"):
                mod = sys.modules[mi.name]
            else:
                try:
                    mod = importlib.import_module(mi.name)
                except BaseException as e:
                    rep["errors"].append({"module": mi.name, "stage": "import", "error": norm(e), "tb": traceback.format_exc()[-1500:]})
                    continue
            rep["modules"] += 1
        # exports
        for name, mod in list(sys.modules.items()):
            if name == pkg or name.startswith(pkg + "."):
                allv = getattr(mod, "__all__", None)
                if allv is not None:
                    for sym in allv:
                        if not isinstance(sym, str) or not hasattr(mod, sym):
                            rep["errors"].append({"module": name, "stage": "export", "error": "__all__ lists %r which does not resolve" % (sym,), "tb": ""})
        if job.get("star"):
            try:
                ns = {}
                exec("from %s import *" % pkg, ns)
            except BaseException as e:
                rep["errors"].append({"module": pkg, "stage": "star", "error": norm(e), "tb": traceback.format_exc()[-800:]})
    extra = job.get("exercise")
    if extra:
        try:
            ns = {"__name__": "__exercise__"}
            exec(compile(extra, "<exercise>", "exec"), ns)
            rep["exercise"] = ns.get("RESULT")
        except BaseException as e:
            rep["errors"].append({"module": "<exercise>", "stage": "exercise", "error": norm(e), "tb": traceback.format_exc()[-1500:]})
    sys.path.remove(root)
    out.append(rep)
sys.stdout.write("\n@@REPORT@@" + json.dumps(out))
'''


def child_import(jobs: list[dict], block: bool = True, timeout: float = 300.0) -> list[dict]:
    """jobs: [{"root":..., "packages":[dotted top-level packages to walk], "star": bool, "exercise": src|None}]"""
    env = dict(os.environ)
    env.pop("PYTHONPATH", None)  # the child must not see /repo/src or /verif
    env["PYTHONDONTWRITEBYTECODE"] = "1"
    env["PYTHONWARNINGS"] = "ignore"
    p = subprocess.run(
        [sys.executable, "-c", CHILD_SRC, json.dumps(BLOCKED_TOP_LEVEL if block else [])],
        input=json.dumps(jobs), capture_output=True, text=True, timeout=timeout, env=env, cwd=jobs[0]["root"] if jobs else None,
    )
    if "@@REPORT@@" not in p.stdout:
        raise RuntimeError(f"import child produced no report (rc={p.returncode}): {p.stderr[-2000:]}")
    return json.loads(p.stdout.split("@@REPORT@@", 1)[1])


def top_packages(res: GenResult) -> list[str]:
    """Top-level dotted packages to walk: the output package and (if outside it) the core package."""
    pk = [res.out_pkg]
    if not (res.core_pkg == res.out_pkg or res.core_pkg.startswith(res.out_pkg + ".")):
        pk.append(res.core_pkg)
    return pk


# ---------------------------------------------------------------------------------------------
# in-process import (runtime oracles)


@contextlib.contextmanager
def load_package(res: GenResult) -> Iterator[Any]:
    """Imports res.out_pkg in this process (project root on sys.path), yields the package module; purges afterwards.
    Package names must be unique per generation (use cfg prefix) so that nothing leaks between cases."""
    tops = {res.out_pkg.split(".")[0], res.core_pkg.split(".")[0]}
    sys.path.insert(0, res.root)
    importlib.invalidate_caches()
    try:
        with warnings.catch_warnings():
            warnings.simplefilter("ignore")
            yield importlib.import_module(res.out_pkg)
    finally:
        try:
            sys.path.remove(res.root)
        except ValueError:
            pass
        for m in list(sys.modules):
            if m.split(".")[0] in tops:
                del sys.modules[m]
        importlib.invalidate_caches()


def import_module_of(res: GenResult, dotted_rel: str) -> Any:
    """import <out_pkg>.<dotted_rel> (inside a load_package block)."""
    return importlib.import_module(f"{res.out_pkg}.{dotted_rel}" if dotted_rel else res.out_pkg)


def core_module_of(res: GenResult, dotted_rel: str) -> Any:
    return importlib.import_module(f"{res.core_pkg}.{dotted_rel}" if dotted_rel else res.core_pkg)
