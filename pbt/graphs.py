"""Exhaustively enumerable family of small schema graphs, shared by C02 (structure fidelity at IR level) and C08
(termination / balanced cycle-tracker state).

A graph over N named schemas: schema i is an object with one scalar property `s<i>` (so "zero fields" is observable)
plus <= E outgoing edges; property keys are unique per schema (`e<i>_<j>`), so allOf inheritance merges disjoint keys and no
override question arises.  An edge is (kind, target index); kinds:
    ref     properties.e<i>_<j> = $ref T
    arr     properties.e<i>_<j> = array of $ref T
    inl     properties.e<i>_<j> = inline object { x: $ref T }
    arrinl  properties.e<i>_<j> = array of inline object { x: $ref T }
    map     properties.e<i>_<j> = object with additionalProperties $ref T
    oneof   properties.e<i>_<j> = oneOf [$ref T, string]
    anyof   properties.e<i>_<j> = anyOf [$ref T, integer]
    allof   schema = allOf [$ref T, {own object}]            (T's fields and required are inherited)
    allofreq  like allof, and the own member additionally lists T's OPTIONAL scalar `o<T>` in its `required`
              (a composition member may require a property declared by a sibling member)
Every schema also has an optional scalar `o<i>` (integer).
Edge j of a schema is `required` iff j is even (so required-ness is exercised too).
A case is identified by (stratum, profile index, order index, graph index) -> reproducible from the enumeration alone.
"""

from __future__ import annotations

import itertools
from typing import Any, Iterator

KINDS = ["ref", "arr", "inl", "arrinl", "map", "oneof", "anyof", "allof", "allofreq"]

PROFILES = [
    ["A", "B", "C"],                              # plain
    ["User", "UserGroup", "UserGroupItem"],       # names that are prefixes of one another (+ 'Item')
    ["Node", "NodeItem", "Children"],             # synthetic-looking names the placeholder policy keys on
]


def schema_options(n: int, max_edges: int) -> list[tuple]:
    """All edge tuples of one schema: () or up to max_edges (kind, target) pairs (ordered, repetition allowed,
    at most one allof edge per target)."""
    single = [(k, t) for k in KINDS for t in range(n)]
    opts: list[tuple] = [()]
    for e in range(1, max_edges + 1):
        for combo in itertools.product(single, repeat=e):
            allofs = [t for k, t in combo if k in ("allof", "allofreq")]
            if len(allofs) != len(set(allofs)):
                continue
            opts.append(combo)
    return opts


def count(n: int, max_edges: int) -> int:
    return len(schema_options(n, max_edges)) ** n


def graph_at(n: int, max_edges: int, index: int, opts: list[tuple] | None = None) -> list[tuple]:
    opts = opts if opts is not None else schema_options(n, max_edges)
    base = len(opts)
    g = []
    for _ in range(n):
        g.append(opts[index % base])
        index //= base
    return g


def render(graph: list[tuple], names: list[str], order: tuple[int, ...]) -> dict:
    """components.schemas dict, declared in `order` (a permutation of schema indices)."""
    def R(t: int) -> dict:
        return {"$ref": f"#/components/schemas/{names[t]}"}

    out: dict[str, Any] = {}
    for i in order:
        props: dict[str, Any] = {f"s{i}": {"type": "string"}, f"o{i}": {"type": "integer"}}
        req = [f"s{i}"]
        parents = []
        for j, (k, t) in enumerate(graph[i]):
            key = f"e{i}_{j}"
            if k == "ref":
                props[key] = R(t)
            elif k == "arr":
                props[key] = {"type": "array", "items": R(t)}
            elif k == "inl":
                props[key] = {"type": "object", "properties": {"x": R(t)}}
            elif k == "arrinl":
                props[key] = {"type": "array", "items": {"type": "object", "properties": {"x": R(t)}}}
            elif k == "map":
                props[key] = {"type": "object", "additionalProperties": R(t)}
            elif k == "oneof":
                props[key] = {"oneOf": [R(t), {"type": "string"}]}
            elif k == "anyof":
                props[key] = {"anyOf": [R(t), {"type": "integer"}]}
            elif k in ("allof", "allofreq"):
                parents.append(t)
                if k == "allofreq" and t != i:
                    req.append(f"o{t}")
                continue
            if j % 2 == 0:
                req.append(key)
        own = {"type": "object", "properties": props, "required": req}
        if parents:
            out[names[i]] = {"allOf": [R(p) for p in parents] + [own]}
        else:
            out[names[i]] = own
    return out


def edges_of(graph: list[tuple]) -> list[tuple[int, str, int]]:
    return [(i, k, t) for i, es in enumerate(graph) for (k, t) in es]


def is_cyclic(graph: list[tuple]) -> bool:
    n = len(graph)
    adj = {i: [t for (k, t) in graph[i]] for i in range(n)}
    color: dict[int, int] = {}

    def dfs(u: int) -> bool:
        color[u] = 1
        for v in adj[u]:
            if color.get(v) == 1:
                return True
            if color.get(v) is None and dfs(v):
                return True
        color[u] = 2
        return False

    return any(color.get(i) is None and dfs(i) for i in range(n))


def has_cycle_len_ge2(graph: list[tuple]) -> bool:
    stripped = [tuple((k, t) for (k, t) in es if t != i) for i, es in enumerate(graph)]
    return is_cyclic(stripped)


def only_benign_self_loops(graph: list[tuple]) -> bool:
    """Cycles consist exclusively of direct `$ref`/array-of-`$ref` self loops (the clean domain of DESIGN §5 C02)."""
    if has_cycle_len_ge2(graph):
        return False
    return all(k in ("ref", "arr") for i, es in enumerate(graph) for (k, t) in es if t == i)


# ---------------------------------------------------------------------------------------------
# reference resolver (independent of the generator): expected shape of every named schema


def expected_shape(graph: list[tuple], i: int, _seen: frozenset = frozenset()) -> tuple[dict[str, tuple], set[str]]:
    """({property key: (kind, target index | None)}, required set) of schema i after flattening allOf.
    Own properties win over inherited ones (allOf merge); a cyclic allOf chain contributes what is reachable once."""
    props: dict[str, tuple] = {}
    req: set[str] = set()
    if i in _seen:
        return props, req
    for (k, t) in graph[i]:
        if k in ("allof", "allofreq"):
            p, r = expected_shape(graph, t, _seen | {i})
            for kk, vv in p.items():
                props.setdefault(kk, vv)
            req |= r
            if k == "allofreq" and t != i and f"o{t}" in p:
                req.add(f"o{t}")
    own = {f"s{i}": ("scalar", None), f"o{i}": ("oscalar", None)}
    for j, (k, t) in enumerate(graph[i]):
        if k in ("allof", "allofreq"):
            continue
        own[f"e{i}_{j}"] = (k, t)
        if j % 2 == 0:
            req.add(f"e{i}_{j}")
    req.add(f"s{i}")
    props.update(own)
    return props, req


def strata(tier: str) -> list[dict]:
    """Enumerated strata: (n, max_edges, profiles, orders). quick: N=2 with <=2 edges and N=3 with <=1 edge, all orders,
    all profiles (complete)."""
    out = [
        {"name": "n2e2", "n": 2, "max_edges": 2},
        {"name": "n3e1", "n": 3, "max_edges": 1},
    ]
    return out


def cases_of(stratum: dict) -> Iterator[tuple[int, int, int]]:
    """(profile index, order index, graph index) for the whole stratum."""
    n = stratum["n"]
    total = count(n, stratum["max_edges"])
    orders = list(itertools.permutations(range(n)))
    for p in range(len(PROFILES)):
        for o in range(len(orders)):
            for g in range(total):
                yield p, o, g
