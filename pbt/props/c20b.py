"""C20 part (b) placeholder until the generator-driven machinery exists (filled in later)."""
from ..runner import Collector, Violation


def shards(tier, seed):
    return []


def run_shard(shard):
    return Collector().to_dict()


def evaluate(case):
    return []
