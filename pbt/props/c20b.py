"""C20 part (b) — distinct raw names that collide after derivation, placed in ONE namespace of a real document, through the real
generator and the imported package.

case = {"part": "b", "ns": "props" | "params" | "schemas" | "enum" | "ops", "names": [raw, raw, ...]}   (raw names pairwise distinct)

Oracles (none may be dropped or merged; every one keeps its own identity):
  props   : schema Obj has one integer property per raw name.  Obj has len(names) fields and decoding {raw_i: i+1} and encoding
            it again returns exactly that object (each raw name has its own field and its own wire key).
  params  : one operation with one optional integer query parameter per raw name (params_pathlevel: the first one declared on the
            path item; params_multicontent: on an operation with two request content types - signature only).  The method takes len(names) parameters and,
            called with pairwise distinct values, sends every raw name with a distinct value.
  schemas : one object schema per raw name with a single required property p<i>, and a Holder whose property h<i> references
            schema i.  The models package has a dataclass with field set {p<i>} for every i and Holder.h<i> is annotated with it.
  enum    : string enum E with the raw names as values.  E has exactly these values as members.
  ops     : one GET operation per raw name (operationId = raw name, path /r<i>) in one tag.  Every path is reachable through
            its own method of the tag client.   ops_multitag: the same, but all operations except the first carry another tag
            first and reach the common tag client through their second tag.
"""

from __future__ import annotations

import dataclasses
import itertools
import typing

from .. import domain, drive, genrun, hyp
from ..runner import Collector, Violation

NAMESPACES = ["props", "params", "params_pathlevel", "params_multicontent", "schemas", "enum", "ops", "ops_multitag"]

# a fixed cluster whose members collide with each other or with the suffixed name handed to another member
CLUSTER = ["foo-bar", "foo_bar", "fooBar", "FooBar", "foo bar", "foo.bar", "FOO_BAR", "foo_bar_1", "foo_bar_2", "foo-bar-1", "fooBar1", "foo_bar1", "foo__bar", "_foo_bar", "foo_bar_"]
KEYWORDISH = ["class", "class_", "Class", "CLASS", "_class", "id", "id_", "Id", "type", "type_", "in", "in_", "In", "1a", "_1a", "1A", "a1", "A1", "a-1", "a_1", "self", "self_", "None", "none", "none_"]


def _ok_for(ns: str, name: str) -> bool:
    if name == "":
        return False
    if ns == "schemas":  # component keys: ^[a-zA-Z0-9._-]+$
        return all(c.isascii() and (c.isalnum() or c in "._-") for c in name)
    return True


def valid_case(case: dict) -> bool:
    try:
        names = case["names"]
        return (case.get("part") == "b" and case["ns"] in NAMESPACES and isinstance(names, list) and len(names) >= 2 and len(set(names)) == len(names)
                and all(isinstance(n, str) and _ok_for(case["ns"], n) for n in names))
    except Exception:
        return False


def build_spec(ns: str, names: list[str]) -> dict:
    spec: dict = {"openapi": "3.0.3", "info": {"title": "N", "version": "1"}, "paths": {}, "components": {"schemas": {}}}
    schemas = spec["components"]["schemas"]
    ok = {"200": {"description": "ok", "content": {"application/json": {"schema": {"type": "object", "properties": {"r": {"type": "integer"}}}}}}}
    if ns == "props":
        schemas["Obj"] = {"type": "object", "properties": {n: {"type": "integer"} for n in names}}
        spec["paths"]["/obj"] = {"get": {"operationId": "getObj", "tags": ["t"], "responses": {"200": {"description": "ok", "content": {"application/json": {"schema": {"$ref": "#/components/schemas/Obj"}}}}}}}
    elif ns == "params":
        spec["paths"]["/r"] = {"get": {"operationId": "getR", "tags": ["t"], "parameters": [{"name": n, "in": "query", "schema": {"type": "integer"}} for n in names], "responses": ok}}
    elif ns == "params_pathlevel":
        # the first parameter is declared on the path item, the others on the operation (same location)
        spec["paths"]["/r"] = {"parameters": [{"name": names[0], "in": "query", "schema": {"type": "integer"}}],
                               "get": {"operationId": "getR", "tags": ["t"], "parameters": [{"name": n, "in": "query", "schema": {"type": "integer"}} for n in names[1:]], "responses": ok}}
    elif ns == "params_multicontent":
        # the same parameters on an operation with several request content types (rendered through the @overload path)
        spec["paths"]["/r"] = {"post": {"operationId": "postR", "tags": ["t"], "parameters": [{"name": n, "in": "query", "schema": {"type": "integer"}} for n in names],
                                        "requestBody": {"required": True, "content": {"application/json": {"schema": {"type": "object", "properties": {"a": {"type": "string"}}}},
                                                                                     "multipart/form-data": {"schema": {"type": "object", "properties": {"file": {"type": "string", "format": "binary"}}}}}},
                                        "responses": ok}}
    elif ns == "schemas":
        for i, n in enumerate(names):
            schemas[n] = {"type": "object", "properties": {f"p{i}": {"type": "integer"}}, "required": [f"p{i}"]}
        schemas["Holder"] = {"type": "object", "properties": {f"h{i}": {"$ref": "#/components/schemas/" + n} for i, n in enumerate(names)}}
        spec["paths"]["/h"] = {"get": {"operationId": "getH", "tags": ["t"], "responses": {"200": {"description": "ok", "content": {"application/json": {"schema": {"$ref": "#/components/schemas/Holder"}}}}}}}
    elif ns == "enum":
        schemas["E"] = {"type": "string", "enum": list(names)}
        schemas["Obj"] = {"type": "object", "properties": {"e": {"$ref": "#/components/schemas/E"}}}
        spec["paths"]["/obj"] = {"get": {"operationId": "getObj", "tags": ["t"], "responses": {"200": {"description": "ok", "content": {"application/json": {"schema": {"$ref": "#/components/schemas/Obj"}}}}}}}
    elif ns == "ops":
        for i, n in enumerate(names):
            spec["paths"][f"/r{i}"] = {"get": {"operationId": n, "tags": ["t"], "responses": ok}}
    elif ns == "ops_multitag":
        # the operations meet in client t, but all except the first reach it through their SECOND tag
        for i, n in enumerate(names):
            spec["paths"][f"/r{i}"] = {"get": {"operationId": n, "tags": ["t"] if i == 0 else [f"u{i % 2}", "t"], "responses": ok}}
    return spec


def _strip_optional(tp):
    args = [a for a in typing.get_args(tp) if a is not type(None)]
    return args[0] if args and (typing.get_origin(tp) is typing.Union or "UnionType" in str(type(tp))) else tp


def evaluate(case: dict) -> list[Violation]:
    return run_case(case)[0]


def run_case(case: dict) -> tuple[list[Violation], str]:
    ns, names = case["ns"], list(case["names"])
    spec = build_spec(ns, names)
    res = genrun.generate({"spec": spec, "cfg": {"out": "cli", "core": None, "naming": "operationId", "fmt": "json", "prefix": genrun.unique_prefix()}})
    viols: list[Violation] = []
    k = len(names)
    try:
        if not res.ok:
            if res.error_type in ("GenerationError", "ValueError") and "not a valid" not in (res.error or ""):
                return [], "rejected"
            # an internal crash is not a visible rejection of the input
            return [Violation(("collide", ns, "generator_crashes", res.error_type or "?"), f"names={names!r}: {res.error}"[:400])], "crashed"
        try:
            sess = drive.Session(res, spec, transport="custom")
            sess.__enter__()
        except Exception as e:
            return [Violation(("collide", ns, "package_unusable", type(e).__name__), f"names={names!r}: {e!r}"[:400])], "unusable"
        try:
            models = sess.models_mod
            if ns == "props":
                cls = getattr(models, "Obj")
                fields = [f.name for f in dataclasses.fields(cls)]
                if len(fields) != k:
                    viols.append(Violation(("collide", ns, "dropped_or_merged"), f"names={names!r}: Obj fields {fields!r}"))
                else:
                    doc = {n: i + 1 for i, n in enumerate(names)}
                    try:
                        obj = sess.conv_mod.structure_from_dict(doc, cls)
                        back = sess.conv_mod.unstructure_to_dict(obj)
                    except Exception as e:
                        viols.append(Violation(("collide", ns, "roundtrip_raises", type(e).__name__), f"names={names!r}: {e!r}"[:300]))
                    else:
                        if back != doc:
                            viols.append(Violation(("collide", ns, "wire_keys_merged"), f"names={names!r}: {doc!r} -> {back!r}"))
            elif ns == "enum":
                import enum as _enum

                cls = getattr(models, "E", None)
                if cls is None or not (isinstance(cls, type) and issubclass(cls, _enum.Enum)):
                    viols.append(Violation(("collide", ns, "enum_missing"), f"names={names!r}"))
                else:
                    vals = sorted(m.value for m in cls)
                    if vals != sorted(names):
                        viols.append(Violation(("collide", ns, "dropped_or_merged"), f"names={names!r}: members {[(m.name, m.value) for m in cls]!r}"))
            elif ns == "schemas":
                by_fields = {}
                for n in getattr(models, "__all__", []):
                    c = getattr(models, n, None)
                    if isinstance(c, type) and dataclasses.is_dataclass(c):
                        by_fields.setdefault(frozenset(f.name for f in dataclasses.fields(c)), []).append(c)
                shadowed = [n for n in getattr(models, "__all__", []) if not isinstance(getattr(models, n, None), type)]
                if shadowed:
                    viols.append(Violation(("collide", ns, "exported_class_shadowed_by_module"), f"names={names!r}: models.{shadowed[0]} is {getattr(models, shadowed[0], None)!r}"[:300]))
                missing = [names[i] for i in range(k) if frozenset({f"p{i}"}) not in by_fields]
                if missing:
                    viols.append(Violation(("collide", ns, "dropped_or_merged"), f"names={names!r}: no class for {missing!r}; classes {sorted(getattr(models, '__all__', []))!r}"))
                else:
                    holder = getattr(models, "Holder", None)
                    try:
                        hints = typing.get_type_hints(holder)
                    except Exception as e:
                        hints = None
                        viols.append(Violation(("collide", ns, "holder_hints_unresolvable", type(e).__name__), f"names={names!r}: {e!r}"[:300]))
                    if hints is not None:
                        for i in range(k):
                            tp = _strip_optional(hints.get(f"h{i}"))
                            want = by_fields[frozenset({f"p{i}"})]
                            if tp not in want:
                                viols.append(Violation(("collide", ns, "reference_to_wrong_class"), f"names={names!r}: Holder.h{i} -> {tp!r}, expected the class of {names[i]!r}"))
                                break
            elif ns in ("params", "params_pathlevel", "params_multicontent"):
                import inspect

                clients = sess.tag_clients()
                fns = {mn: fn for c in clients.values() if not isinstance(c, Exception) for mn, fn in sess.methods(c).items()}
                if len(fns) != 1:
                    viols.append(Violation(("collide", ns, "method_missing"), f"names={names!r}: methods {sorted(fns)!r}"))
                else:
                    fn = next(iter(fns.values()))
                    ps = [n for n, p in inspect.signature(fn).parameters.items() if p.kind not in (p.VAR_KEYWORD, p.VAR_POSITIONAL)]
                    if ns == "params_multicontent":
                        # body arguments are not parameters; what reaches the wire is C04's business (C04-F01): here only the signature
                        ps = [n for n in ps if n not in ("body", "files", "form_data", "bytes_content", "content_type")]
                        if len(ps) != k or len(set(ps)) != k:
                            viols.append(Violation(("collide", ns, "dropped_or_merged"), f"names={names!r}: parameters {ps!r}"))
                    elif len(ps) != k:
                        viols.append(Violation(("collide", ns, "dropped_or_merged"), f"names={names!r}: parameters {ps!r}"))
                    else:
                        out = sess.call(fn, {p: 100 + i for i, p in enumerate(ps)})
                        raw = out.raw_kwargs[0] if out.raw_kwargs else None
                        if raw is None:
                            viols.append(Violation(("collide", ns, "call_fails", type(out.exc).__name__), f"names={names!r}: {out.exc!r}"[:300]))
                        else:
                            sent = dict(raw.get("params") or {})
                            if sorted(sent) != sorted(names) or len(set(map(str, sent.values()))) != k:
                                viols.append(Violation(("collide", ns, "wire_names_merged"), f"names={names!r}: sent {sent!r}"))
            elif ns in ("ops", "ops_multitag"):
                found, problems = sess.discover()
                used = set()
                for i in range(k):
                    where = [w for w in (found.get(("GET", f"/r{i}")) or []) if w[0] == "t"]  # methods of tag client t
                    free = [w for w in where if tuple(w) not in used]
                    if not free:
                        viols.append(Violation(("collide", ns, "dropped_or_merged"), f"names={names!r}: /r{i} ({names[i]!r}) has no method of its own; found {sorted(found.items())!r}"[:400]))
                        break
                    used.add(tuple(free[0]))
        except Exception as e:
            viols.append(Violation(("collide", ns, "oracle_access_raises", type(e).__name__), f"names={names!r}: {e!r}"[:300]))
        finally:
            sess.__exit__(None, None, None)
        return viols, "ok"
    finally:
        genrun.cleanup(res)


def features(case: dict) -> set[str]:
    """Triggers of open known findings present in the case (excluded from the campaign by construction, see known_findings.json)."""
    from pyopenapi_gen.core.utils import NameSanitizer

    ns, names = case["ns"], case["names"]
    out = set()
    if ns == "schemas":
        cls = [NameSanitizer.sanitize_class_name(n) for n in names]
        if len(set(cls)) < len(cls):
            out.add("schemas_same_class_name")
        if any(not any(c.isascii() and c.isalpha() for c in n) for n in names):
            out.add("schema_name_without_letters")
    if ns in ("params", "params_pathlevel", "params_multicontent"):
        ids = [NameSanitizer.sanitize_method_name(n) for n in names]
        if len(set(ids)) < len(ids):
            out.add("params_same_identifier")
    return out


def nontrivial(case: dict) -> bool:
    """>= 2 raw names derive to the same base identifier (by the generator's own sanitiser for that namespace)."""
    from pyopenapi_gen.core.utils import NameSanitizer

    fn = {"props": NameSanitizer.sanitize_method_name, "params": NameSanitizer.sanitize_method_name, "ops": NameSanitizer.sanitize_method_name,
          "params_pathlevel": NameSanitizer.sanitize_method_name, "params_multicontent": NameSanitizer.sanitize_method_name,
          "ops_multitag": NameSanitizer.sanitize_method_name,
          "schemas": NameSanitizer.sanitize_class_name, "enum": lambda s: s.upper().replace("-", "_").replace(" ", "_")}[case["ns"]]
    try:
        d = [fn(n) for n in case["names"]]
    except Exception:
        return True
    return len(set(d)) < len(d)


def strategy():
    from hypothesis import strategies as st

    words = st.sampled_from(["foo", "bar", "a", "b", "x", "id", "type", "class", "in", "status", "v", "1", "2", "data", "list"])
    styles = ["snake", "kebab", "camel", "pascal", "upper", "space", "dot", "dunder", "lead_", "trail_", "lower_joined", "upper_joined"]
    sufs = ["", "", "", "_1", "1", "_2", "2", "_", "-1", " 1", "_1_1", "_0"]

    def render(ws, style, suf):
        if style == "snake":
            s = "_".join(ws)
        elif style == "kebab":
            s = "-".join(ws)
        elif style == "camel":
            s = ws[0] + "".join(w.capitalize() for w in ws[1:])
        elif style == "pascal":
            s = "".join(w.capitalize() for w in ws)
        elif style == "upper":
            s = "_".join(ws).upper()
        elif style == "space":
            s = " ".join(ws)
        elif style == "dot":
            s = ".".join(ws)
        elif style == "dunder":
            s = "__".join(ws)
        elif style == "lead_":
            s = "_" + "_".join(ws)
        elif style == "trail_":
            s = "_".join(ws) + "_"
        elif style == "lower_joined":
            s = "".join(ws)
        else:
            s = "".join(ws).upper()
        return s + suf

    @st.composite
    def cases(draw):
        ns = draw(st.sampled_from(NAMESPACES))
        base = draw(st.lists(words, min_size=1, max_size=3))
        k = draw(st.integers(2, 5))
        names: list[str] = []
        for _ in range(k * 3):
            if len(names) >= k:
                break
            ws = base if draw(st.integers(0, 9)) else draw(st.lists(words, min_size=1, max_size=2))
            n = render(ws, draw(st.sampled_from(styles)), draw(st.sampled_from(sufs)))
            if n not in names and _ok_for(ns, n):
                names.append(n)
        if len(names) < 2:
            names = [n for n in ["foo-bar", "foo_bar"]]
        return {"part": "b", "ns": ns, "names": names}

    return cases()


def shards(tier: str, seed: int) -> list[dict]:
    out = []
    for ns in NAMESPACES:
        out.append({"mode": "b_pairs", "ns": ns, "pool": "cluster", "r": 2})
        out.append({"mode": "b_pairs", "ns": ns, "pool": "keywordish", "r": 2})
        for part in range(4):
            out.append({"mode": "b_pairs", "ns": ns, "pool": "cluster", "r": 3, "part": part, "of": 4})
    n_h, per = (16, 20) if tier == "quick" else (48, 200)
    out += [{"mode": "b_hyp", "seed": seed * 1000 + 500 + i, "n": per} for i in range(n_h)]
    return out


def run_shard(shard: dict) -> dict:
    from .. import runner

    col = Collector()
    excl = domain.excluded("C20")
    if shard["mode"] == "b_pairs":
        ns = shard["ns"]
        pool = [n for n in (CLUSTER if shard["pool"] == "cluster" else KEYWORDISH) if _ok_for(ns, n)]
        combos = list(itertools.combinations(pool, shard["r"]))
        if "part" in shard:
            combos = combos[shard["part"]::shard["of"]]
        for i, names in enumerate(combos):
            case = {"part": "b", "ns": ns, "names": list(names)}
            hit = features(case) & excl
            if hit:
                for f in hit:
                    col.excluded[f] += 1
                continue
            viols, outcome = run_case(case)
            col.record(case, viols, nontrivial(case), ["b_" + ns, f"b_exhaustive_{shard['pool']}_{shard['r']}", "b_outcome_" + outcome])
            if i % 20 == 0:
                runner.truncate_generator_logs()
        return col.to_dict()
    for case in hyp.draw_cases(strategy(), shard["n"], shard["seed"]):
        # drop names one at a time (from the end) until no excluded trigger is left
        while features(case) & excl and len(case["names"]) > 2:
            case = {**case, "names": case["names"][:-1]}
        hit = features(case) & excl
        if hit:
            for f in hit:
                col.excluded[f] += 1
            continue
        viols, outcome = run_case(case)
        col.record(case, viols, nontrivial(case), ["b_" + case["ns"], "b_random", "b_outcome_" + outcome, f"b_k{len(case['names'])}"])
    return col.to_dict()
