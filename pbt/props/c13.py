"""C13 — endpoint clients, their Protocols and their mocks have identical surfaces.

Oracle (introspection on the imported package, per tag client reachable from APIClient):
  * the sets of public operation methods of the client class, its <Client>Protocol and Mock<Client> are equal;
  * inspect.signature agrees parameter by parameter (name, kind, default, annotation) and in the return annotation;
  * coroutine-function vs async-generator nature agrees between client and mock; the Protocol stub is a coroutine function when
    the client's is, and a plain or async-generator function (returning AsyncIterator[...]) when the client's is an async generator;
  * typing.get_overloads counts agree;  isinstance(client, Protocol) and isinstance(mock, Protocol);
  * every mock method raises NotImplementedError when awaited / first iterated;
  * MockAPIClient exposes the same tag property names as APIClient.
"""

from __future__ import annotations

import importlib
import inspect
import pkgutil
import re
import typing

from .. import domain, drive, genrun, hyp, specgen
from ..runner import Collector, Violation

PROPERTY_ID = "C13"
LEVEL = "exploration"
RULE = (
    "case = (constructed document with 1..5 operations: multi-tag operations, tag spelling variants, multi-content (overloaded) "
    "operations, streaming operations, 0..6 parameters with hostile names, long signatures; layout). Non-trivial = a tag client "
    "with >= 2 methods, or a multi-tag / overloaded / streaming operation. distinct = distinct case JSON."
)
ASSUMPTIONS = [
    "annotations are compared through typing.get_type_hints when resolvable, else as raw strings",
    "a Protocol stub for a streaming operation may be a plain `def` returning AsyncIterator[...] (the type-correct stub form)",
    "packages that do not import are C01's business and are skipped (counted)",
]
MIN_NONTRIVIAL = {"quick": 300, "thorough": 3000}
valid_case = specgen.valid_case


def _public(cls) -> dict:
    out = {}
    for name, fn in inspect.getmembers(cls, inspect.isfunction):
        if name.startswith("_") and not re.match(r"_\d", name):
            continue
        out[name] = fn
    return out


def _sig(fn) -> tuple:
    sig = inspect.signature(fn)
    try:
        hints = typing.get_type_hints(fn)
    except Exception:
        hints = {}
    params = []
    for n, p in sig.parameters.items():
        if n == "self":
            continue
        params.append((n, str(p.kind), repr(p.default) if p.default is not inspect.Parameter.empty else "<required>", repr(hints.get(n, p.annotation))))
    return tuple(params), repr(hints.get("return", sig.return_annotation))


def _find_mock_classes(res: genrun.GenResult) -> dict:
    out = {}
    try:
        mocks = genrun.import_module_of(res, "mocks")
    except Exception as e:
        return {"__error__": e}
    for mi in pkgutil.walk_packages(mocks.__path__, prefix=mocks.__name__ + "."):
        try:
            mod = importlib.import_module(mi.name)
        except Exception as e:
            out["__error__"] = e
            continue
        for n, c in inspect.getmembers(mod, inspect.isclass):
            if n.startswith("Mock") and c.__module__ == mod.__name__:
                out[n] = c
    return out


def nontrivial(spec: dict) -> bool:
    ops = drive.spec_operations(spec)
    groups: dict[str, int] = {}
    for o in ops:
        tags = {re.sub(r"[^0-9a-z]", "", t.lower()) for t in o["tags"]} or {"default"}
        if len(tags) > 1:
            return True
        for t in tags:
            groups[t] = groups.get(t, 0) + 1
        rb = o["op"].get("requestBody") or {}
        if len(rb.get("content") or {}) > 1:
            return True
        for r in (o["op"].get("responses") or {}).values():
            if set((r.get("content") or {})) & {"text/event-stream", "application/x-ndjson", "application/octet-stream", "image/png"}:
                return True
    return any(v >= 2 for v in groups.values())


def check(res: genrun.GenResult, case: dict) -> list[Violation]:
    viols: list[Violation] = []
    spec = case["spec"]
    with drive.Session(res, spec, transport="bundled") as s:
        mock_classes = _find_mock_classes(res)
        if "__error__" in mock_classes:
            return []  # C01
        tag_clients = s.tag_clients()
        MockAPI = mock_classes.get("MockAPIClient")
        if MockAPI is None:
            viols.append(Violation(("mock_api_client_missing",), str(sorted(mock_classes))))
        else:
            mprops = {n for n, a in inspect.getmembers(MockAPI, lambda a: isinstance(a, property)) if not n.startswith("__")}
            if mprops != set(tag_clients):
                viols.append(Violation(("mock_api_client_tag_properties_differ",), f"APIClient {sorted(tag_clients)} MockAPIClient {sorted(mprops)}"))
        for attr, client in sorted(tag_clients.items()):
            if isinstance(client, Exception):
                continue
            cls = type(client)
            mod = importlib.import_module(cls.__module__)
            proto = getattr(mod, cls.__name__ + "Protocol", None)
            mock = mock_classes.get("Mock" + cls.__name__)
            if proto is None:
                viols.append(Violation(("protocol_missing",), cls.__name__))
                continue
            if mock is None:
                viols.append(Violation(("mock_class_missing",), f"Mock{cls.__name__} not in {sorted(mock_classes)}"))
                continue
            cm, pm, mm = _public(cls), _public(proto), _public(mock)
            cm = {k: v for k, v in cm.items() if inspect.iscoroutinefunction(v) or inspect.isasyncgenfunction(v)}
            if set(cm) != set(pm):
                viols.append(Violation(("method_sets_differ", "client_vs_protocol"), f"{cls.__name__}: client-only {sorted(set(cm) - set(pm))} protocol-only {sorted(set(pm) - set(cm))}"))
            if set(cm) != set(mm):
                viols.append(Violation(("method_sets_differ", "client_vs_mock"), f"{cls.__name__}: client-only {sorted(set(cm) - set(mm))} mock-only {sorted(set(mm) - set(cm))}"))
            for name in sorted(set(cm) & set(pm) & set(mm)):
                cs, ps, ms = _sig(cm[name]), _sig(pm[name]), _sig(mm[name])
                if cs != ps:
                    viols.append(Violation(("signature_differs", "client_vs_protocol", _which(cs, ps)), f"{cls.__name__}.{name}: client {cs} protocol {ps}"[:900]))
                if cs != ms:
                    viols.append(Violation(("signature_differs", "client_vs_mock", _which(cs, ms)), f"{cls.__name__}.{name}: client {cs} mock {ms}"[:900]))
                c_gen, m_gen = inspect.isasyncgenfunction(cm[name]), inspect.isasyncgenfunction(mm[name])
                if c_gen != m_gen or inspect.iscoroutinefunction(cm[name]) != inspect.iscoroutinefunction(mm[name]):
                    viols.append(Violation(("nature_differs", "client_vs_mock"), f"{cls.__name__}.{name}: client asyncgen={c_gen} mock asyncgen={m_gen}"))
                if not c_gen and not inspect.iscoroutinefunction(pm[name]):
                    viols.append(Violation(("nature_differs", "protocol_not_coroutine"), f"{cls.__name__}.{name}"))
                if c_gen and inspect.iscoroutinefunction(pm[name]):
                    viols.append(Violation(("nature_differs", "protocol_coroutine_for_stream"), f"{cls.__name__}.{name}"))
                try:
                    oc, op_, om = (len(typing.get_overloads(f)) for f in (cm[name], pm[name], mm[name]))
                    if not (oc == op_ == om):
                        viols.append(Violation(("overload_counts_differ",), f"{cls.__name__}.{name}: client {oc} protocol {op_} mock {om}"))
                except Exception:
                    pass
            try:
                mock_obj = mock()
            except Exception as e:
                viols.append(Violation(("mock_not_instantiable", type(e).__name__), f"{mock.__name__}: {e!r}"))
                continue
            try:
                if not isinstance(client, proto):
                    viols.append(Violation(("client_not_instance_of_protocol",), cls.__name__))
                if not isinstance(mock_obj, proto):
                    viols.append(Violation(("mock_not_instance_of_protocol",), mock.__name__))
            except TypeError:
                pass
            for name in sorted(mm):
                fn = getattr(mock_obj, name)
                kw = s.probe_kwargs(fn)
                for n in [n for n in kw if s._is_body_like(n)][1:]:
                    kw.pop(n, None)
                out = s.call(fn, kw)
                if not isinstance(out.exc, NotImplementedError):
                    viols.append(Violation(("mock_method_does_not_raise_not_implemented", type(out.exc).__name__ if out.exc else "returned"), f"{mock.__name__}.{name}: {out.exc!r} value={out.value!r}"[:400]))
    return viols


def _which(a: tuple, b: tuple) -> str:
    if a[1] != b[1]:
        return "return_annotation"
    pa, pb = a[0], b[0]
    if [p[0] for p in pa] != [p[0] for p in pb]:
        return "parameter_names_or_order"
    for x, y in zip(pa, pb):
        if x[1] != y[1]:
            return "parameter_kind"
        if x[2] != y[2]:
            return "default"
        if x[3] != y[3]:
            return "annotation"
    return "other"


def evaluate(case: dict) -> list[Violation]:
    res = genrun.generate({**case, "cfg": {**case["cfg"], "prefix": genrun.unique_prefix()}})
    try:
        if not res.ok or genrun.compile_all(res):
            return []
        try:
            return check(res, case)
        except (ImportError, SyntaxError, NameError):
            return []
    finally:
        genrun.cleanup(res)


def shards(tier: str, seed: int) -> list[dict]:
    n_sh, per = (16, 90) if tier == "quick" else (48, 500)
    return [{"seed": seed * 1000 + i, "n": per} for i in range(n_sh)]


def run_shard(shard: dict) -> dict:
    from .. import runner

    col = Collector()
    gate = specgen.Gate(domain.excluded("C01", "C03", "C07", "C13"))
    cases = hyp.draw_cases(specgen.cases(gate, max_schemas=2, max_ops=5, min_ops=1), shard["n"], shard["seed"])
    col.excluded.update(gate.excluded)
    for i, case in enumerate(cases):
        res = genrun.generate({**case, "cfg": {**case["cfg"], "prefix": genrun.unique_prefix()}})
        try:
            if not res.ok:
                col.rejected += 1
                continue
            if genrun.compile_all(res):
                col.classes["skipped_c01_compile"] += 1
                continue
            try:
                viols = check(res, case)
            except (ImportError, SyntaxError, NameError):
                col.classes["skipped_c01_import"] += 1
                continue
            col.record(case, viols, nontrivial(case["spec"]), [])
        finally:
            genrun.cleanup(res)
        if i % 40 == 0:
            runner.truncate_generator_logs()
    return col.to_dict()
