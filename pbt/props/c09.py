"""C09 — generation is deterministic; re-running on unchanged input is a no-op (inputs x configurations x histories).

(1) determinism: the same case generated in several CHILD interpreters that differ in PYTHONHASHSEED, warm-up history (k other
    specs generated first in the same process), project root and wall clock (time.time / datetime.now patched) must yield
    identical manifests {path relative to the project root: sha256};
(2) no emitted text contains an id()-derived name (`_primitive_<name>_<digits>`) or the absolute scratch path;
(3) history  generate(force) ; generate(no force):  the second call returns and the recursive snapshot
    (path, size, sha256, mtime_ns) of the project root is unchanged;
(4) history  generate ; mutate one emitted file (edit / delete / add an extra .py / delete models/__init__.py edit) ;
    generate(no force):  must raise GenerationError (the existing output differs from what would be generated now).
"""

from __future__ import annotations

import hashlib
import json
import os
import re
import subprocess
import sys

from .. import domain, genrun, hyp, specgen
from ..runner import REPO, VERIF, Collector, Violation, worker_scratch

PROPERTY_ID = "C09"
LEVEL = "exploration"
RULE = (
    "case = (constructed document incl. discriminated unions and cyclic graphs, layout, mutation kind). Each case is generated "
    "in 4 child interpreters (PYTHONHASHSEED 0 / 1 / seed-derived / 4242424242; fresh vs warm process and forward vs reversed order of the batch, "
    "i.e. different histories of earlier generations; two project roots; two patched clocks) and the manifests compared; then the force;no-force and force;mutate;no-force histories are run. "
    "Non-trivial = the document has >= 3 schemas with >= 2 reference edges, or a discriminated union. distinct = distinct case JSON."
)
ASSUMPTIONS = [
    "paths are compared relative to the project root with the same package name (\"up to the package path\" holds by construction)",
    "the generator's debug logs under $TMPDIR are outside the output and ignored; .exception_registry.json is part of the core tree and hashed",
    "post-processing is off in the quick tier",
]
MIN_NONTRIVIAL = {"quick": 100, "thorough": 1500}
valid_case = specgen.valid_case

CHILD = r'''
import sys, os, json, hashlib, time, datetime
cfg = json.loads(sys.stdin.read())
sys.path.insert(0, cfg["repo_src"]); sys.path.insert(0, cfg["verif"])
os.environ["TMPDIR"] = cfg["tmp"]; import tempfile; tempfile.tempdir = cfg["tmp"]
if cfg.get("epoch"):
    _e = float(cfg["epoch"])
    time.time = lambda: _e
    class _DT(datetime.datetime):
        @classmethod
        def now(cls, tz=None): return datetime.datetime.fromtimestamp(_e, tz)
        @classmethod
        def utcnow(cls): return datetime.datetime.utcfromtimestamp(_e)
    datetime.datetime = _DT
from pbt import genrun
out = []
for w in cfg.get("warmup", []):
    r = genrun.generate(w, root=os.path.join(cfg["root"], "_warm%d" % len(out)), force=True)
for i, case in enumerate(cfg["cases"]):
    pre = (cfg.get("pre") or [None] * len(cfg["cases"]))[i]
    if pre is not None:
        genrun.generate(pre, root=os.path.join(cfg["root"], "_pre%d" % i), force=True)
    root = os.path.join(cfg["root"], "case%d" % i)
    res = genrun.generate(case, root=root, force=True)
    man = {}
    if res.ok:
        for base in {res.out_dir, res.core_dir}:
            for dp, dn, fn in os.walk(base):
                for f in fn:
                    p = os.path.join(dp, f)
                    man[os.path.relpath(p, root)] = hashlib.sha256(open(p, "rb").read()).hexdigest()
    out.append({"ok": res.ok, "error": res.error, "manifest": man})
sys.stdout.write("@@MAN@@" + json.dumps(out))
'''


def kind_swapped_twin(case: dict) -> dict:
    """The same document with every named schema replaced by a schema of ANOTHER kind under the SAME name (object <-> string alias,
    anything else -> object): generated immediately before the real case in one child, so that anything the generator remembers
    per schema / type name from an earlier generation in the same process is wrong for the real case."""
    import copy

    spec = copy.deepcopy(case["spec"])
    schemas = (spec.get("components") or {}).get("schemas") or {}
    for name, node in list(schemas.items()):
        if isinstance(node, dict) and node.get("type") == "object" and "properties" in node:
            schemas[name] = {"type": "string"}
        else:
            schemas[name] = {"type": "object", "properties": {"twin_value": {"type": "integer"}}}
    # operations keep their shape; parameter/body/response schemas that refer to names stay valid ($ref to any schema kind)
    for item in (spec.get("paths") or {}).values():
        for m, op in item.items():
            if isinstance(op, dict):
                op.pop("x-ignored", None)
    return {"spec": spec, "cfg": {**case["cfg"], "prefix": "t"}}


def run_child(cases: list[dict], root: str, hashseed: str, warmup: list[dict], epoch: float | None, pre: list | None = None) -> list[dict]:
    env = dict(os.environ)
    env["PYTHONHASHSEED"] = hashseed
    env.pop("PYTHONPATH", None)
    tmp = os.path.join(root, "_tmp")
    os.makedirs(tmp, exist_ok=True)
    p = subprocess.run([sys.executable, "-c", CHILD], input=json.dumps({
        "repo_src": os.path.join(REPO, "src"), "verif": VERIF, "tmp": tmp, "root": root, "cases": cases, "warmup": warmup, "epoch": epoch, "pre": pre}),
        capture_output=True, text=True, env=env, timeout=900)
    if "@@MAN@@" not in p.stdout:
        raise RuntimeError(f"determinism child failed rc={p.returncode}: {p.stderr[-1500:]}")
    return json.loads(p.stdout.split("@@MAN@@", 1)[1])


def snapshot(root: str) -> dict:
    snap = {}
    for dp, dn, fn in os.walk(root):
        for f in fn:
            if f.startswith("_spec") or "/_tmp" in dp:
                continue
            p = os.path.join(dp, f)
            st = os.stat(p)
            snap[os.path.relpath(p, root)] = (st.st_size, hashlib.sha256(open(p, "rb").read()).hexdigest(), st.st_mtime_ns)
    return snap


def nontrivial(case: dict) -> bool:
    schemas = (case["spec"].get("components") or {}).get("schemas") or {}
    edges = sum(repr(v).count("$ref") for v in schemas.values())
    return (len(schemas) >= 3 and edges >= 2) or "discriminator" in repr(schemas)


def history_violations(case: dict) -> list[Violation]:
    """(3) and (4) in this process."""
    from pyopenapi_gen import GenerationError

    viols: list[Violation] = []
    cfgk = "shared_core" if case["cfg"].get("core") else "embedded_core"
    res = genrun.generate(case, force=True, prefix="")
    try:
        if not res.ok:
            return []
        # (2) text checks
        for rel in genrun.list_py_files(res):
            txt = open(os.path.join(res.root, rel), encoding="utf-8", errors="replace").read()
            if re.search(r"_primitive_\w+_\d{6,}", txt):
                viols.append(Violation(("id_derived_name_in_output",), rel))
            if res.root in txt:
                viols.append(Violation(("absolute_scratch_path_in_output",), rel))
        before = snapshot(res.root)
        res2 = genrun.generate(case, root=res.root, force=False, prefix="", spec_path=res.spec_path)
        after = snapshot(res.root)
        if not res2.ok:
            viols.append(Violation(("noop_rerun_fails", cfgk, (res2.error_type or "?")), f"{res2.error}"[:400]))
        if before != after:
            changed = sorted(k for k in set(before) | set(after) if before.get(k) != after.get(k))
            viols.append(Violation(("noop_rerun_touches_files", cfgk), f"{changed[:6]}"))
        # (4) mutation must be detected
        mut = case.get("mutation", "edit_client")
        target = None
        if mut == "edit_client":
            target = os.path.join(res.out_dir, "client.py")
            open(target, "a").write("\n# local edit\n")
        elif mut == "edit_model_init":
            target = os.path.join(res.out_dir, "models", "__init__.py")
            if os.path.exists(target):
                open(target, "a").write("\n# local edit\n")
            else:
                target = None
        elif mut == "delete_endpoint":
            d = os.path.join(res.out_dir, "endpoints")
            cands = sorted(f for f in os.listdir(d) if f.endswith(".py") and f != "__init__.py") if os.path.isdir(d) else []
            if cands:
                target = os.path.join(d, cands[0])
                os.remove(target)
        elif mut == "edit_core_file":
            target = os.path.join(res.core_dir, "exceptions.py")
            open(target, "a").write("\n# local edit\n")
        elif mut == "edit_model":
            d = os.path.join(res.out_dir, "models")
            cands = sorted(f for f in os.listdir(d) if f.endswith(".py") and f != "__init__.py") if os.path.isdir(d) else []
            if cands:
                target = os.path.join(d, cands[0])
                open(target, "a").write("\nEXTRA = 1\n")
        if target is not None and not res2.error:
            res3 = genrun.generate(case, root=res.root, force=False, prefix="", spec_path=res.spec_path)
            if res3.ok:
                viols.append(Violation(("stale_output_reported_as_up_to_date", mut, cfgk), f"mutated {os.path.relpath(target, res.root)}; non-force run succeeded"))
            elif res3.error_type != "GenerationError":
                viols.append(Violation(("stale_output_wrong_exception", mut, res3.error_type or "?"), f"{res3.error}"[:300]))
        return viols
    finally:
        genrun.cleanup(res)


def determinism_violations(cases: list[dict], seed: int) -> list[list[Violation]]:
    base = os.path.join(worker_scratch(), f"det{genrun.unique_prefix()}")
    warm = [{"spec": c["spec"], "cfg": {**c["cfg"], "prefix": "w"}} for c in cases[:2]]
    plain = [{"spec": c["spec"], "cfg": {**c["cfg"], "prefix": ""}} for c in cases]
    runs = [
        ("hashseed0_fresh_rootA_epoch1", run_child(plain, os.path.join(base, "A"), "0", [], 1_000_000_000.0)),
        # this child generates the cases in REVERSE order: every case is preceded by a different history of other documents
        # (same names with other kinds, other layouts) than in the reference child
        ("hashseed1_warm_rootB_epoch2_reversed_history", list(reversed(run_child(list(reversed(plain)), os.path.join(base, "B", "deeper"), "1", warm, 1_900_000_000.0)))),
        ("hashseedS_fresh_rootA2", run_child(plain, os.path.join(base, "A2"), str((seed * 7919 + 13) % 4294967295), [], None)),
        # every case is immediately preceded by its kind-swapped twin (same schema names, other kinds) in this child
        ("hashseedBig_warm_rootC_twin_before_each", run_child(list(plain), os.path.join(base, "C"), "4242424242", list(reversed(warm)), None, pre=[kind_swapped_twin(c) for c in plain])),
    ]
    out: list[list[Violation]] = [[] for _ in cases]
    ref_name, ref = runs[0]
    for name, r in runs[1:]:
        for i, (a, b) in enumerate(zip(ref, r)):
            if a["ok"] != b["ok"]:
                out[i].append(Violation(("generation_outcome_differs", name), f"{a['error']} vs {b['error']}"[:300]))
                continue
            if a["manifest"] != b["manifest"]:
                diff = sorted(k for k in set(a["manifest"]) | set(b["manifest"]) if a["manifest"].get(k) != b["manifest"].get(k))
                role = "missing_or_extra_file" if any((k in a["manifest"]) != (k in b["manifest"]) for k in diff) else "content"
                kind = "hashseed" if "hashseed" in name else "other"
                out[i].append(Violation(("nondeterministic_output", role, _file_role(diff[0])), f"{ref_name} vs {name}: {diff[:5]}"))
    import shutil

    shutil.rmtree(base, ignore_errors=True)
    return out


def _file_role(rel: str) -> str:
    from .c01 import role_of

    return role_of(rel)


def evaluate(case: dict) -> list[Violation]:
    v = history_violations(case)
    v += determinism_violations([case], int(os.environ.get("VERIF_SEED", "1")))[0]
    return v


def case_strategy(gate: specgen.Gate):
    from hypothesis import strategies as st

    @st.composite
    def cases(draw):
        c = draw(specgen.cases(gate, max_schemas=5, max_ops=3, min_ops=1))
        c["mutation"] = draw(st.sampled_from(["edit_client", "edit_model_init", "delete_endpoint", "edit_core_file", "edit_model"]))
        return c

    return cases()


def shards(tier: str, seed: int) -> list[dict]:
    n_sh, per = (16, 50) if tier == "quick" else (32, 300)
    return [{"seed": seed * 1000 + i, "n": per, "vseed": seed} for i in range(n_sh)]


def run_shard(shard: dict) -> dict:
    col = Collector()
    # cyclic graphs are IN the domain here (no import needed); only triggers that make generation itself fail are excluded
    gate = specgen.Gate(domain.excluded("C09"))
    cases = hyp.draw_cases(case_strategy(gate), shard["n"], shard["seed"])
    col.excluded.update(gate.excluded)
    det = determinism_violations(cases, shard["vseed"])
    for case, dv in zip(cases, det):
        hv = history_violations(case)
        labs = ["core_shared" if case["cfg"].get("core") else "core_embedded", "mutation_" + case["mutation"]]
        col.record(case, dv + hv, nontrivial(case), labs)
    return col.to_dict()
