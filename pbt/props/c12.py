"""C12 — generated clients are self-contained (no dependency on the generator).

Oracle per generated package:
 (1) AST walk of EVERY emitted .py file (module level, nested in functions, under TYPE_CHECKING): every absolute import's top-level
     name is in sys.stdlib_module_names ∪ {httpx, cattrs} ∪ {top-level of the output package, of the core package}; every relative
     import resolves to an emitted file/package;
 (2) in a child interpreter whose meta path blocks `pyopenapi_gen` and the generator-only dependencies: import every module, then an
     exercise script structures/unstructures one conforming document per model, calls get_mapping() of every discriminator class and
     drives every client method once against an in-memory server — so that imports nested in function bodies execute;
 (3) every runtime file the core emitter is documented to copy is byte-identical to the generator's own file in the working tree —
     also after a history in which a shared core already contains a drifted copy (generate ; drift ; generate again).
"""

from __future__ import annotations

import ast
import json
import os
import sys

from .. import domain, drive, genrun, hyp, specgen
from ..refmodel import instances as I
from ..runner import REPO, Collector, Violation

PROPERTY_ID = "C12"
LEVEL = "exploration"
RULE = (
    "case = (constructed document, layout [embedded / shared core at depth 1..3], history flag: fresh project or a shared core that "
    "already holds a drifted runtime file). Non-trivial = the package contains an additionalProperties wrapper class, a "
    "discriminator helper, an overloaded (multi-content) method or a streaming method. distinct = distinct case JSON."
)
ASSUMPTIONS = [
    "allowed third-party top-level imports: httpx, cattrs (the documented runtime dependencies); everything else must be stdlib or the emitted packages",
    "imports inside docstrings / string templates are not imports; imports inside function bodies and TYPE_CHECKING blocks are",
    "the list of runtime files is read from emitters/core_emitter.RUNTIME_FILES of the working tree and each is compared with the file of the same name under src/pyopenapi_gen/core",
]
MIN_NONTRIVIAL = {"quick": 200, "thorough": 2500}
valid_case = specgen.valid_case
ALLOWED_THIRD_PARTY = {"httpx", "cattrs"}

EXERCISE = r'''
import asyncio, importlib, inspect, json, dataclasses, pkgutil, warnings
warnings.simplefilter("ignore")
OUT, CORE, DOCS = %(out)r, %(core)r, json.loads(%(docs)r)
conv = importlib.import_module(CORE + ".cattrs_converter")
models = importlib.import_module(OUT + ".models")
done = {"roundtrips": 0, "mappings": 0, "calls": 0, "errors": []}
for name, docs in DOCS.items():
    cls = getattr(models, name, None)
    if cls is None:
        continue
    for d in docs:
        try:
            conv.unstructure_to_dict(conv.structure_from_dict(d, cls))
            done["roundtrips"] += 1
        except (ModuleNotFoundError, ImportError) as e:
            raise
        except Exception as e:
            pass  # decoding problems are C03's business; only missing modules matter here
for mi in pkgutil.walk_packages(models.__path__, prefix=models.__name__ + "."):
    mod = importlib.import_module(mi.name)
    for n, c in inspect.getmembers(mod, inspect.isclass):
        if n.endswith("Discriminator") and c.__module__ == mod.__name__:
            c().get_mapping(); done["mappings"] += 1
import httpx
client_mod = importlib.import_module(OUT + ".client")
cfg = importlib.import_module(CORE + ".config")
ht = importlib.import_module(CORE + ".http_transport")
real = httpx.AsyncClient
def handler(request):
    return httpx.Response(599, text="x")
ht.httpx.AsyncClient = lambda *a, **k: real(*a, **{**k, "transport": httpx.MockTransport(handler)})
try:
    transport = ht.HttpxTransport("https://api.test")
finally:
    ht.httpx.AsyncClient = real
api = client_mod.APIClient(cfg.ClientConfig(base_url="https://api.test"), transport=transport)
async def drive_all():
    for pname, prop in inspect.getmembers(type(api), lambda a: isinstance(a, property)):
        if pname.startswith("__"):
            continue
        tag = getattr(api, pname)
        for mname, fn in inspect.getmembers(tag, callable):
            f = getattr(fn, "__func__", fn)
            if mname.startswith("__") or not (inspect.iscoroutinefunction(f) or inspect.isasyncgenfunction(f)):
                continue
            kw = {}
            for n, p in inspect.signature(fn).parameters.items():
                if p.default is inspect.Parameter.empty and p.kind not in (p.VAR_KEYWORD, p.VAR_POSITIONAL):
                    kw[n] = "x"
            try:
                r = fn(**kw)
                if inspect.isasyncgen(r):
                    async for _ in r:
                        break
                else:
                    await r
            except (ModuleNotFoundError, ImportError):
                raise
            except Exception:
                pass
            done["calls"] += 1
    await transport.close()
asyncio.run(drive_all())
RESULT = done
'''


def import_violations(res: genrun.GenResult) -> tuple[list[Violation], dict]:
    viols: list[Violation] = []
    stats = {"files": 0, "imports": 0, "nested_imports": 0}
    allowed_tops = {res.out_pkg.split(".")[0], res.core_pkg.split(".")[0]}
    stdlib = set(sys.stdlib_module_names)
    for rel in genrun.list_py_files(res):
        path = os.path.join(res.root, rel)
        try:
            tree = ast.parse(open(path, encoding="utf-8").read())
        except SyntaxError:
            continue  # C01
        stats["files"] += 1
        top_level_nodes = set(id(n) for n in tree.body)
        for node in ast.walk(tree):
            if isinstance(node, ast.Import):
                names = [a.name for a in node.names]
                level = 0
            elif isinstance(node, ast.ImportFrom):
                names = [node.module or ""]
                level = node.level
            else:
                continue
            stats["imports"] += 1
            if id(node) not in top_level_nodes:
                stats["nested_imports"] += 1
            where = "module_level" if id(node) in top_level_nodes else "nested"
            for name in names:
                if level == 0:
                    top = name.split(".")[0]
                    if top in stdlib or top in ALLOWED_THIRD_PARTY or top in allowed_tops:
                        continue
                    kind = "imports_generator" if top == "pyopenapi_gen" else "imports_undeclared_third_party"
                    viols.append(Violation((kind, top, c01_role(rel), where), f"{rel}:{node.lineno}: import {name}"))
                else:
                    pkg_depth = rel.replace(os.sep, "/").count("/")  # number of packages the module is nested in (root/<pkg>/.../<mod>.py)
                    if level > pkg_depth:
                        # the import climbs above the top-level package: it only resolves when the project root itself happens to be a package
                        viols.append(Violation(("relative_import_beyond_top_level_package", c01_role(rel), where), f"{rel}:{node.lineno}: from {'.' * level}{name} import ..."))
                        continue
                    base = os.path.dirname(path)
                    for _ in range(level - 1):
                        base = os.path.dirname(base)
                    target = os.path.join(base, *name.split(".")) if name else base
                    if not (os.path.isfile(target + ".py") or os.path.isdir(target)):
                        viols.append(Violation(("relative_import_unresolved", c01_role(rel), where), f"{rel}:{node.lineno}: from {'.' * level}{name} import ..."))
    return viols, stats


def c01_role(rel: str) -> str:
    from .c01 import role_of

    return role_of(rel)


def runtime_file_violations(res: genrun.GenResult) -> list[Violation]:
    from pyopenapi_gen.emitters.core_emitter import RUNTIME_FILES

    viols = []
    for module, filename, rel_dst in RUNTIME_FILES:
        src = os.path.join(REPO, "src", *module.split("."), filename)
        dst = os.path.join(res.core_dir, rel_dst.replace("core/", "", 1))
        if not os.path.exists(src):
            continue
        if not os.path.exists(dst):
            viols.append(Violation(("runtime_file_missing", filename), dst))
            continue
        if open(src, "rb").read() != open(dst, "rb").read():
            viols.append(Violation(("runtime_file_not_byte_identical", filename), f"{dst} differs from {src}"))
    return viols


def nontrivial(res: genrun.GenResult) -> bool:
    for rel in genrun.list_py_files(res):
        try:
            src = open(os.path.join(res.root, rel), encoding="utf-8").read()
        except OSError:
            continue
        if "_data: dict[str" in src or "Discriminator" in src or "@overload" in src or "AsyncIterator[" in src:
            return True
    return False


def generate_with_history(case: dict, prefix: str) -> genrun.GenResult:
    cfg = {**case["cfg"], "prefix": prefix}
    res = genrun.generate({**case, "cfg": cfg})
    if res.ok and case.get("drift") and case["cfg"].get("core"):
        # history: the shared core already holds a drifted runtime module (local hot-fix / truncated write), then regenerate
        # three kinds of drift: an appended line, a whitespace-only change (blank lines collapsed), a re-indented line
        for fn, kind in (("exceptions.py", "append"), ("streaming_helpers.py", "collapse_blank_lines"), (os.path.join("auth", "plugins.py"), "append"),
                         ("http_transport.py", "reindent_one_line"), ("config.py", "collapse_blank_lines")):
            p = os.path.join(res.core_dir, fn)
            if not os.path.exists(p):
                continue
            src = open(p, encoding="utf-8").read()
            if kind == "append":
                src += "\n# locally drifted copy\n"
            elif kind == "collapse_blank_lines":
                src = "\n".join(l for l in src.split("\n") if l.strip()) + "\n"
            else:
                lines = src.split("\n")
                for i, l in enumerate(lines):
                    if l.startswith("        ") and l.strip() and not l.strip().startswith(("#", '"', "'")):
                        lines[i] = "    " + l  # one statement indented one level further (same tokens, other meaning)
                        break
                src = "\n".join(lines)
            with open(p, "w", encoding="utf-8") as f:
                f.write(src)
        res2 = genrun.generate({**case, "cfg": cfg}, root=res.root, force=True)
        res2.spec_path = res.spec_path
        return res2
    return res


def exercise_source(res: genrun.GenResult, case: dict) -> str:
    from pyopenapi_gen.core.utils import NameSanitizer

    docs = {NameSanitizer.sanitize_class_name(k): v for k, v in (case.get("docs") or {}).items()}
    return EXERCISE % {"out": res.out_pkg, "core": res.core_pkg, "docs": json.dumps(docs)}


def _violations(res, case, report) -> list[Violation]:
    viols, _ = import_violations(res)
    viols += runtime_file_violations(res)
    if report is not None:
        for e in report["errors"]:
            msg = e["error"]
            if "blocked: generator-only dependency" in msg or "No module named" in msg and ("pyopenapi_gen" in msg):
                viols.append(Violation(("needs_blocked_module_at_runtime", e["stage"], msg.split("'")[1] if "'" in msg else "?"), f"{e['module']}: {msg}\n{e.get('tb', '')[-600:]}"))
            elif "beyond top-level package" in msg:
                viols.append(Violation(("import_escapes_top_level_package", e["stage"]), f"{e['module']}: {msg}"[:400]))
            elif "No module named" in msg and "'" in msg:
                missing = msg.split("'")[1].split(".")[0]
                own = {p.split(".")[0] for p in genrun.top_packages(res)}
                if missing not in own:  # a module of the emitted packages that is missing is C01's business; anything else is an outside dependency
                    viols.append(Violation(("needs_module_outside_the_emitted_packages", e["stage"], missing), f"{e['module']}: {msg}"[:400]))
    return viols


def evaluate(case: dict) -> list[Violation]:
    res = generate_with_history(case, genrun.unique_prefix())
    try:
        if not res.ok or genrun.compile_all(res):
            return []
        rep = genrun.child_import([{"root": res.root, "packages": genrun.top_packages(res), "star": False, "exercise": exercise_source(res, case)}])[0]
        return _violations(res, case, rep)
    finally:
        genrun.cleanup(res)


def case_strategy(gate: specgen.Gate):
    from hypothesis import strategies as st

    @st.composite
    def cases(draw):
        spec = draw(specgen.specs(gate, max_schemas=4, max_ops=3, min_ops=1))
        cfg = draw(specgen.configs(gate))
        schemas = (spec.get("components") or {}).get("schemas") or {}
        docs = {}
        for name, node in schemas.items():
            if I.satisfiable({"$ref": "#/components/schemas/" + name}, schemas):
                docs[name] = draw(st.lists(I.instances(node, schemas).filter(lambda d: d is not None), min_size=1, max_size=2))
        return {"spec": spec, "cfg": cfg, "docs": docs, "drift": draw(st.booleans())}

    return cases()


def shards(tier: str, seed: int) -> list[dict]:
    n_sh, per = (16, 60) if tier == "quick" else (48, 400)
    return [{"seed": seed * 1000 + i, "n": per} for i in range(n_sh)]


BATCH = 10


def run_shard(shard: dict) -> dict:
    from .. import runner

    col = Collector()
    gate = specgen.Gate(domain.excluded("C01", "C03", "C12"))
    cases = hyp.draw_cases(case_strategy(gate), shard["n"], shard["seed"])
    col.excluded.update(gate.excluded)
    pending = []

    def flush():
        if not pending:
            return
        jobs = [{"root": r.root, "packages": genrun.top_packages(r), "star": False, "exercise": exercise_source(r, c)} for c, r in pending]
        reports = genrun.child_import(jobs)
        for (case, res), rep in zip(pending, reports):
            viols = _violations(res, case, rep)
            labs = ["core_shared" if case["cfg"].get("core") else "core_embedded", "history_drifted_core" if (case.get("drift") and case["cfg"].get("core")) else "fresh"]
            ex = rep.get("exercise") or {}
            for k in ("roundtrips", "mappings", "calls"):
                col.extra.setdefault("exercised", {})
                col.extra["exercised"][k] = col.extra["exercised"].get(k, 0) + int(ex.get(k, 0))
            col.record({k: v for k, v in case.items() if k != "docs"}, viols, nontrivial(res), labs)
            genrun.cleanup(res)
        pending.clear()
        runner.truncate_generator_logs()

    for case in cases:
        res = generate_with_history(case, genrun.unique_prefix())
        if not res.ok:
            col.rejected += 1
            genrun.cleanup(res)
            continue
        if genrun.compile_all(res):
            col.classes["skipped_c01_compile"] += 1
            genrun.cleanup(res)
            continue
        pending.append((case, res))
        if len(pending) >= BATCH:
            flush()
    flush()
    return col.to_dict()
