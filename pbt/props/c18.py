"""C18 — stream decoders are independent of how the bytes are chunked (schedules x inputs).

Domain   : SSE event models / NDJSON record lists / raw byte strings, rendered to a byte stream, x chunkings
           (every subset of split points for short streams = exhaustive; adversarial + random for long ones).
           The harness owns the schedule: httpx.Response(200, content=<async generator over the chunks>).
Oracle   : (metamorphic) items for any chunking == items for the unsplit stream;
           (reference) items for the unsplit stream == pbt.refmodel.sse.expected_* for model-built streams;
           iter_bytes: concatenation == stream.
"""

from __future__ import annotations

import asyncio
import itertools
import json
import os
import random as _random  # only used through seeds derived from VERIF_SEED for long-stream chunk sampling
from typing import Any

from ..refmodel import sse as ref
from ..runner import Collector, Violation

PROPERTY_ID = "C18"
LEVEL = "exploration"
RULE = (
    "case = (decoder kind, byte stream, set of split points [+ empty chunks]); streams come from a curated pool of "
    "short SSE/NDJSON streams (all 2^(n-1) chunkings enumerated, distinct by construction) and from Hypothesis-built "
    "event models (LF/CRLF/CR, multi-line data, comments, empty data, non-ASCII, 3 final-termination modes) with "
    "adversarial/random chunkings. Non-trivial = the chunking splits inside a multi-byte UTF-8 character, between CR "
    "and LF, or between two lines of one event/record block. distinct_nontrivial counts distinct (kind, stream, cuts)."
)
ASSUMPTIONS = [
    "payload texts contain no str.splitlines() separators other than the generated LF/CRLF/CR terminators and do not start with whitespace (reference oracle only; the metamorphic oracle also runs on arbitrary bytes)",
    "httpx (the documented runtime dependency) supplies aiter_lines/aiter_bytes; the installed version is the one exercised",
    "streams are served uncompressed with the default utf-8 encoding",
]
MIN_NONTRIVIAL = {"quick": 1000, "thorough": 5000}

_loop = None


def _get_loop():
    global _loop
    if _loop is None or _loop.is_closed():
        _loop = asyncio.new_event_loop()
    return _loop


def _helpers():
    from pyopenapi_gen.core import streaming_helpers as sh

    return sh


async def _drive(kind: str, chunks: list[bytes]) -> list:
    """Run every helper of `kind` over a response that delivers exactly `chunks`; returns a comparable outcome."""
    import httpx

    sh = _helpers()

    def resp():
        async def gen():
            for c in chunks:
                yield c

        return httpx.Response(200, content=gen())

    async def collect(fn, conv):
        out = []
        try:
            async for item in fn(resp()):
                out.append(conv(item))
        except Exception as e:  # an outcome, compared like an item
            out.append(["<raised>", type(e).__name__])
        return out

    if kind == "sse":
        return [
            await collect(sh.iter_sse, lambda e: {"data": e.data, "event": e.event, "id": e.id, "retry": e.retry}),
            await collect(sh.iter_sse_events_text, lambda s: s),
        ]
    if kind == "ndjson":
        return [await collect(sh.iter_ndjson, lambda x: x)]
    if kind == "bytes":
        got = await collect(sh.iter_bytes, lambda b: b.decode("latin-1"))
        if got and isinstance(got[-1], list) and got[-1][:1] == ["<raised>"]:
            return [got]
        return [["".join(got)]]
    raise ValueError(kind)


def _chunks(stream: bytes, cuts: list[int], empties: list[int]) -> list[bytes]:
    pts = sorted({c for c in cuts if 0 < c < len(stream)})
    out = []
    prev = 0
    for p in pts:
        out.append(stream[prev:p])
        prev = p
    out.append(stream[prev:])
    for i in sorted({e for e in empties}, reverse=True):
        out.insert(min(max(i, 0), len(out)), b"")
    return out


def _stream_of(case: dict) -> tuple[bytes, Any]:
    kind = case["kind"]
    m = case.get("model")
    if m:
        if kind == "sse":
            blocks = [b for b in m["blocks"] if b]
            if not blocks:
                return b"", []
            return ref.render(blocks, m["terms"] or ["\n"], int(m["final_mode"])), ref.expected_events(blocks)
        if kind == "ndjson":
            recs = m["records"]
            return ref.render_ndjson(recs, m["terms"] or ["\n"], m.get("blank_after", []), bool(m.get("final_terminated", True))), ref.expected_ndjson(recs)
    return case.get("stream", "").encode("latin-1"), None


def _labels(stream: bytes, cuts: list[int]) -> set[str]:
    labs = set()
    for p in cuts:
        if not (0 < p < len(stream)):
            continue
        if 0x80 <= stream[p] <= 0xBF:
            labs.add("split_multibyte")
        if stream[p - 1] == 0x0D and stream[p] == 0x0A:
            labs.add("split_crlf")
        if stream[p - 1] in (0x0A, 0x0D) and stream[p] not in (0x0A, 0x0D) and p >= 2 and stream[p - 2] not in (0x0A,) :
            labs.add("split_between_lines")
        if stream[p - 1] not in (0x0A, 0x0D) and stream[p] not in (0x0A, 0x0D):
            labs.add("split_mid_line")
        if stream[p - 1] == 0x0D:
            labs.add("split_after_cr")
    return labs


def _nontrivial(labs: set[str]) -> bool:
    return bool(labs & {"split_multibyte", "split_crlf", "split_between_lines"})


def evaluate(case: dict) -> list[Violation]:
    kind = case["kind"]
    stream, expected = _stream_of(case)
    loop = _get_loop()
    whole = loop.run_until_complete(_drive(kind, [stream] if stream else []))
    viols = []
    if expected is not None:
        if kind == "sse":
            if whole[0] != expected:
                viols.append(Violation(("reference", "iter_sse"), f"stream={stream!r} got={whole[0]!r} expected={expected!r}"))
            exp_text = [e["data"] for e in expected if e["data"]]
            if whole[1] != exp_text:
                viols.append(Violation(("reference", "iter_sse_events_text"), f"stream={stream!r} got={whole[1]!r} expected={exp_text!r}"))
        elif kind == "ndjson":
            if whole[0] != expected:
                viols.append(Violation(("reference", "iter_ndjson"), f"stream={stream!r} got={whole[0]!r} expected={expected!r}"))
    if kind == "bytes" and whole != [[stream.decode("latin-1")]]:
        viols.append(Violation(("reference", "iter_bytes"), f"stream={stream!r} got={whole!r}"))
    cuts = case.get("cuts", [])
    empties = case.get("empties", [])
    if cuts or empties:
        split = loop.run_until_complete(_drive(kind, _chunks(stream, cuts, empties)))
        names = {"sse": ["iter_sse", "iter_sse_events_text"], "ndjson": ["iter_ndjson"], "bytes": ["iter_bytes"]}[kind]
        for n, a, b in zip(names, whole, split):
            if a != b:
                viols.append(Violation(("chunking", n), f"stream={stream!r} cuts={cuts} empties={empties} whole={a!r} split={b!r}"))
    return viols


# ------------------------------------------------------------------------------------------------
# domain

SHORT_POOL = [
    ("sse", "data: a\n\n"),
    ("sse", "data: a\r\n\r\n"),
    ("sse", "data: a\r\r"),
    ("sse", "data:a\n\nid:1"),
    ("sse", "data:a\ndata:b\n\n"),
    ("sse", "data:\u00e9\n\n"),
    ("sse", ":c\ndata:x\n\n"),
    ("sse", "data:\n\ndata:y"),
    ("sse", "id:1\r\ndata:z\r\n"),
    ("sse", "data:\u6f22\r\n\r\n"),
    ("sse", "event:e\rdata:1\r\r"),
    ("sse", "retry:5\ndata:q\n"),
    ("sse", "data:a\n\n\ndata:b"),
    ("sse", "d:\U0001F600\n\ndata:k"),
    ("sse", "data:a\r\n\ndata:b\n"),
    ("sse", "\n\ndata: a\n\n"),
    ("sse", "data\n\ndata:x\n"),
    ("ndjson", "1\n2\n3\n"),
    ("ndjson", "{\"a\":1}\n[2]"),
    ("ndjson", "\"\u00e9\"\r\n\"b\"\r\n"),
    ("ndjson", "1\r\n\r\n2\r\n"),
    ("ndjson", "\"\u6f22\"\n\ntrue"),
    ("ndjson", "[1,2]\r[3]\r"),
    ("ndjson", " 1 \n\t2\n"),
    ("ndjson", "\"\U0001F600\"\n0\n"),
    ("bytes", "\x00\xff\r\n\xe6\xbc\xa2ab"),
    ("bytes", "abcdefghijkl"),
]

EXH_MAX = 13  # streams up to this many bytes get all 2^(n-1) chunkings (a 25-byte stream would need 16M)


def _exhaust_stream(col: Collector, kind: str, stream: bytes) -> None:
    n = len(stream)
    assert 1 <= n <= EXH_MAX
    total = 0
    nontriv = 0
    classes: dict[str, int] = {}
    for mask in range(0, 1 << (n - 1)):
        cuts = [i + 1 for i in range(n - 1) if mask >> i & 1]
        case = {"kind": kind, "stream": stream.decode("latin-1"), "cuts": cuts, "empties": []}
        viols = evaluate(case) if mask else evaluate({**case, "cuts": []})
        labs = _labels(stream, cuts)
        total += 1
        if _nontrivial(labs):
            nontriv += 1
        for l in labs:
            classes[l] = classes.get(l, 0) + 1
        for v in viols:
            col.add_violation(v, case)
    classes[f"exhaustive_stream_{kind}"] = 1
    col.bulk(total, nontriv, classes, sample={"kind": kind, "stream": stream.decode("latin-1"), "chunkings": total, "exhaustive": True})


def shards(tier: str, seed: int) -> list[dict]:
    out = []
    for i, (kind, text) in enumerate(SHORT_POOL):
        out.append({"mode": "exhaustive", "kind": kind, "text": text})
    n_h = 16 if tier == "quick" else 48
    per = 250 if tier == "quick" else 2500
    for i in range(n_h):
        out.append({"mode": "hypothesis", "seed": seed * 1000 + i, "examples": per, "tier": tier})
    out.append({"mode": "gen_exhaustive", "seed": seed, "n": 24 if tier == "quick" else 150})
    return out


def _strategies():
    from hypothesis import strategies as st

    safe_chars = st.characters(
        blacklist_categories=("Cs",), blacklist_characters=ref.SPLITLINES_SEPS
    )
    text = st.text(safe_chars, max_size=8).filter(lambda s: s == "" or not s[0].isspace()).map(
        lambda s: s.rstrip() if False else s
    )
    nonempty_text = st.one_of(st.sampled_from(["a", "é", "漢", "\U0001F600x", "{\"k\": 1}", "x:y", "a b"]), text.filter(bool))
    line = st.one_of(
        st.tuples(st.just("data"), st.one_of(nonempty_text, st.just(""))),
        st.tuples(st.just("data"), nonempty_text),
        st.tuples(st.just("event"), nonempty_text),
        st.tuples(st.just("id"), nonempty_text),
        st.tuples(st.just("retry"), st.integers(0, 99999)),
        st.tuples(st.just("comment"), text),
    ).map(list)
    block = st.lists(line, min_size=1, max_size=4)
    terms = st.one_of(
        st.sampled_from([["\n"], ["\r\n"], ["\r"]]),
        st.lists(st.sampled_from(["\n", "\r\n", "\r"]), min_size=2, max_size=5),
    )
    sse_model = st.fixed_dictionaries(
        {"blocks": st.lists(block, min_size=1, max_size=4), "terms": terms, "final_mode": st.integers(0, 2)}
    )
    json_leaf = st.one_of(
        st.integers(-10**6, 10**6), st.booleans(), st.none(), nonempty_text, st.floats(allow_nan=False, allow_infinity=False, width=32)
    )
    json_val = st.recursive(
        json_leaf, lambda c: st.one_of(st.lists(c, max_size=3), st.dictionaries(st.sampled_from(["a", "b", "é"]), c, max_size=3)), max_leaves=6
    )
    nd_model = st.fixed_dictionaries(
        {
            "records": st.lists(json_val, min_size=1, max_size=5),
            "terms": st.sampled_from([["\n"], ["\r\n"], ["\r"], ["\n", "\r\n"]]),
            "blank_after": st.lists(st.integers(0, 4), max_size=2, unique=True),
            "final_terminated": st.booleans(),
        }
    )
    return sse_model, nd_model


def _adversarial_cuts(stream: bytes) -> list[list[int]]:
    n = len(stream)
    outs = [list(range(1, n))]  # one byte per chunk
    mb = [p for p in range(1, n) if 0x80 <= stream[p] <= 0xBF]
    if mb:
        outs.append(mb)
    crlf = [p for p in range(1, n) if stream[p - 1] == 0x0D]
    if crlf:
        outs.append(crlf)
    nl = [p for p in range(1, n) if stream[p - 1] in (0x0A, 0x0D)]
    if nl:
        outs.append(nl)
        outs.append([p - 1 for p in nl if p - 1 > 0])
    return outs


def run_shard(shard: dict) -> dict:
    col = Collector()
    if shard["mode"] == "exhaustive":
        stream = shard["text"].encode("utf-8") if shard["kind"] != "bytes" else shard["text"].encode("latin-1")
        if len(stream) > EXH_MAX:
            stream = stream[:EXH_MAX]
        _exhaust_stream(col, shard["kind"], stream)
        col.exhaustive = None
        return col.to_dict()

    import hypothesis
    from hypothesis import HealthCheck, Phase, given, settings, strategies as st

    sse_model, nd_model = _strategies()

    if shard["mode"] == "gen_exhaustive":
        # generated short streams (<= EXH_MAX bytes) with every chunking
        found: list[tuple[str, bytes]] = []

        @hypothesis.seed(shard["seed"])
        @settings(max_examples=shard["n"] * 6, database=None, deadline=None, derandomize=False,
                  suppress_health_check=list(HealthCheck), phases=[Phase.generate])
        @given(st.one_of(sse_model.map(lambda m: ("sse", m)), nd_model.map(lambda m: ("ndjson", m))))
        def collect(km):
            kind, m = km
            s, _ = _stream_of({"kind": kind, "model": m})
            if 2 <= len(s) <= EXH_MAX and (kind, s) not in found and len(found) < shard["n"]:
                found.append((kind, s))
                # reference oracle on the model itself
                for v in evaluate({"kind": kind, "model": m, "cuts": [], "empties": []}):
                    col.add_violation(v, {"kind": kind, "model": m, "cuts": [], "empties": []})

        collect()
        for kind, s in found:
            _exhaust_stream(col, kind, s)
        return col.to_dict()

    rnd_seed = shard["seed"]

    @hypothesis.seed(rnd_seed)
    @settings(max_examples=shard["examples"], database=None, deadline=None, derandomize=False,
              suppress_health_check=list(HealthCheck), phases=[Phase.generate], report_multiple_bugs=False)
    @given(
        st.one_of(
            sse_model.map(lambda m: {"kind": "sse", "model": m}),
            nd_model.map(lambda m: {"kind": "ndjson", "model": m}),
            st.binary(min_size=1, max_size=40).map(lambda b: {"kind": "sse", "stream": b.decode("latin-1")}),
            st.binary(min_size=1, max_size=40).map(lambda b: {"kind": "bytes", "stream": b.decode("latin-1")}),
        ),
        st.data(),
    )
    def body(base, data):
        stream, _ = _stream_of(base)
        n = len(stream)
        if n < 2:
            return
        cutsets = _adversarial_cuts(stream)
        k = data.draw(st.integers(1, 4))
        for _ in range(k):
            cutsets.append(sorted(data.draw(st.sets(st.integers(1, n - 1), max_size=min(n - 1, 8)))))
        empties = data.draw(st.lists(st.integers(0, 6), max_size=2))
        for i, cuts in enumerate(cutsets):
            case = dict(base, cuts=cuts, empties=empties if i % 2 else [])
            viols = evaluate(case)
            labs = _labels(stream, cuts)
            col.record(case, viols, _nontrivial(labs), classes=list(labs) + [f"kind_{base['kind']}", "model" if base.get("model") else "rawbytes"])

    body()
    return col.to_dict()
