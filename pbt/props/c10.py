"""C10 — without force nothing is touched; writes stay contained   (fault_enumeration).

Domain : fault point in { none; one of 10 generation stages failed by wrapping the class method / module function from the
         harness; the k-th file write under the project root for EVERY k up to the number of writes of a fault-free run
         (injected through a sys.addaudithook on `open` in a write mode) }
         x force {on, off} x existing tree {absent, equal, one client file edited, partially present (core removed), one core file edited}
         x layout {embedded core; sibling shared core; nested shared core depth 3; top-level `core`} x 3 documents.
         The project root is a sandbox seeded with sentinel files at every level (siblings of the output package and of the core,
         in ancestor packages, a look-alike `clix/` next to `cli/`).
Oracle : recursive snapshot (path, type, size, sha256, mtime_ns) before/after + an audit log of open(write)/remove/rename/rmdir/
         mkdir events under the project root.
         * non-force over existing output: the snapshot is identical in all three outcomes (match -> returns; difference -> raises;
           injected failure -> raises) and the audit log shows no write/remove under the root at all;
         * every mode: every path created/modified/removed (snapshot or audit log) lies inside the output package dir, the core
           package dir, or is the __init__.py of an ancestor package that did not exist before.
"""

from __future__ import annotations

import contextlib
import hashlib
import itertools
import json
import os
import shutil
import sys

from .. import genrun
from ..runner import Collector, Violation, worker_scratch

PROPERTY_ID = "C10"
LEVEL = "fault_enumeration"
RULE = (
    "case = (document index, layout, force, existing-tree state, fault point). Fault points are enumerated: no fault, each of the "
    "10 stages, and every k-th write (quick: every 3rd k; thorough: all k). Non-trivial = a fault injected after >= 1 write "
    "happened, or an existing tree that differs from what would be generated. Cases are distinct by construction."
)
ASSUMPTIONS = [
    "the generator's temp directory and debug logs live under $TMPDIR, which the harness points outside the project root; only paths under the project root are judged",
    "stage faults are raised on the FIRST call of the wrapped callable; write faults abort the k-th open() in a write mode under the project root",
    "post-processing is off (its stage fault is injected by failing PostprocessManager.run with no_postprocess=False in a dedicated case)",
]
MIN_NONTRIVIAL = {"quick": 300, "thorough": 2000}

R = "#/components/schemas/"
SPECS = [
    {"openapi": "3.0.3", "info": {"title": "A", "version": "1"}, "paths": {
        "/pets": {"get": {"operationId": "listPets", "tags": ["pets"], "responses": {"200": {"description": "ok", "content": {"application/json": {"schema": {"type": "array", "items": {"$ref": R + "Pet"}}}}}, "404": {"description": "nf"}}}}},
     "components": {"schemas": {"Pet": {"type": "object", "properties": {"id": {"type": "integer"}, "tag": {"$ref": R + "Tag"}}, "required": ["id"]}, "Tag": {"type": "string", "enum": ["a", "b"]}}}},
    {"openapi": "3.0.3", "info": {"title": "B", "version": "1"}, "paths": {
        "/users/{id}": {"parameters": [{"name": "id", "in": "path", "required": True, "schema": {"type": "string"}}],
                        "get": {"operationId": "getUser", "tags": ["users"], "responses": {"200": {"description": "ok", "content": {"application/json": {"schema": {"$ref": R + "User"}}}}, "500": {"description": "e"}}},
                        "delete": {"operationId": "deleteUser", "tags": ["users", "admin"], "responses": {"204": {"description": "gone"}}}}},
     "components": {"schemas": {"User": {"type": "object", "properties": {"name": {"type": "string"}, "meta": {"type": "object", "additionalProperties": {"type": "string"}}}}}}},
    {"openapi": "3.0.3", "info": {"title": "C", "version": "1"}, "paths": {}, "components": {"schemas": {"Only": {"type": "object", "properties": {"x": {"type": "integer"}}}}}},
]
LAYOUTS = {
    "embedded": ("cli", None),
    "sibling_shared": ("cli", "sharedcore"),
    "nested_shared3": ("apis.v1.cli", "shared.rt.corepkg"),
    "toplevel_core": ("cli", "core"),
    "nested_embedded": ("apis.cli", None),
    "prefix_sibling": ("billing", "billing_core"),  # the core's directory name starts with the client's
}
EXISTING = ["absent", "equal", "edited", "partial", "core_edited"]
STAGES = ["fetch_spec", "load_ir_from_spec", "ExceptionsEmitter.emit", "CoreEmitter.emit", "ModelsEmitter.emit", "EndpointsEmitter.emit",
          "ClientEmitter.emit", "MocksEmitter.emit", "PostprocessManager.run", "_show_diffs"]


class InjectedFault(Exception):
    pass


# ---- audit hook (installed once per process; switched by module state) -------------------------------------------------------

_AUDIT = {"on": False, "root": None, "log": [], "fail_at": None, "writes": 0}
_HOOKED = False


def _hook(event, args):
    st = _AUDIT
    if not st["on"]:
        return
    try:
        if event == "open":
            path, mode = args[0], args[1]
            if isinstance(path, (str, bytes, os.PathLike)) and isinstance(mode, str) and any(c in mode for c in "wax+"):
                p = os.path.abspath(os.fsdecode(path))
                if p.startswith(st["root"] + os.sep):
                    st["writes"] += 1
                    st["log"].append(("write", p))
                    if st["fail_at"] is not None and st["writes"] == st["fail_at"]:
                        raise InjectedFault(f"injected failure at write #{st['writes']}: {p}")
        elif event in ("os.remove", "os.rmdir", "os.mkdir", "os.rename", "os.truncate", "os.replace", "shutil.rmtree", "os.link", "os.symlink"):
            for a in args[:2]:
                if isinstance(a, (str, bytes, os.PathLike)):
                    p = os.path.abspath(os.fsdecode(a))
                    if p.startswith(st["root"] + os.sep) or p == st["root"]:
                        st["log"].append((event, p))
    except InjectedFault:
        raise
    except Exception:
        pass


def _ensure_hook():
    global _HOOKED
    if not _HOOKED:
        sys.addaudithook(_hook)
        _HOOKED = True


@contextlib.contextmanager
def auditing(root: str, fail_at: int | None):
    _ensure_hook()
    _AUDIT.update({"on": True, "root": os.path.abspath(root), "log": [], "fail_at": fail_at, "writes": 0})
    try:
        yield _AUDIT
    finally:
        _AUDIT["on"] = False


@contextlib.contextmanager
def stage_fault(name: str | None):
    if name is None:
        yield
        return
    import pyopenapi_gen.generator.client_generator as cg

    def boom(*a, **k):
        raise InjectedFault(f"injected failure in stage {name}")

    if name in ("fetch_spec", "load_ir_from_spec"):
        target, attr = cg, name
    elif name == "_show_diffs":
        target, attr = cg.ClientGenerator, "_show_diffs"
    else:
        cls, meth = name.split(".")
        target, attr = getattr(cg, cls), meth
    orig = target.__dict__[attr] if isinstance(target, type) else getattr(target, attr)
    setattr(target, attr, boom)
    try:
        yield
    finally:
        setattr(target, attr, orig)


# ---- sandbox ---------------------------------------------------------------------------------------------------------------

def snapshot(root: str) -> dict:
    snap = {}
    for dp, dn, fn in os.walk(root):
        for d in dn:
            snap[os.path.relpath(os.path.join(dp, d), root) + "/"] = ("dir",)
        for f in fn:
            p = os.path.join(dp, f)
            st = os.stat(p)
            snap[os.path.relpath(p, root)] = ("file", st.st_size, hashlib.sha256(open(p, "rb").read()).hexdigest(), st.st_mtime_ns)
    return snap


def seed_sentinels(root: str, out_pkg: str, core_pkg: str | None) -> None:
    def put(rel, text="sentinel\n"):
        p = os.path.join(root, rel)
        os.makedirs(os.path.dirname(p), exist_ok=True)
        if not os.path.exists(p):
            open(p, "w").write(text)

    put("README.md")
    put("pyproject.toml")
    put("other_pkg/__init__.py", "# someone else's package\n")
    put("other_pkg/data.py", "X = 1\n")
    parts = out_pkg.split(".")
    put(parts[0] + "x/keep.py", "LOOKALIKE = 1\n")  # look-alike sibling of the top-level output package
    for i in range(1, len(parts)):
        put("/".join(parts[:i]) + "/sibling_module.py", "S = 1\n")  # user code inside ancestor packages
    if core_pkg:
        cparts = core_pkg.split(".")
        put(cparts[0] + "_notes.txt")
        for i in range(1, len(cparts)):
            put("/".join(cparts[:i]) + "/user_code.py", "U = 1\n")


def allowed(rel: str, out_pkg: str, core_pkg: str, before: dict) -> bool:
    out_dir = out_pkg.replace(".", "/")
    core_dir = core_pkg.replace(".", "/")
    rel = rel.rstrip("/")
    if rel == out_dir or rel.startswith(out_dir + "/") or rel == core_dir or rel.startswith(core_dir + "/"):
        return True
    # ancestor package dirs and their __init__.py (only if not present before)
    for pkg in (out_pkg, core_pkg):
        parts = pkg.split(".")
        for i in range(1, len(parts)):
            anc = "/".join(parts[:i])
            if rel == anc:
                return True
            if rel == anc + "/__init__.py" and (anc + "/__init__.py") not in before:
                return True
    return False


def run_case(case: dict) -> list[Violation]:
    from pyopenapi_gen import generate_client

    out_pkg, core = LAYOUTS[case["layout"]]
    core_pkg = core or out_pkg + ".core"
    root = os.path.join(worker_scratch(), genrun.unique_prefix())
    os.makedirs(root)
    spec_dir = os.path.join(worker_scratch(), "specs")
    os.makedirs(spec_dir, exist_ok=True)
    spec_path = os.path.join(spec_dir, f"spec{case['spec']}.json")
    if not os.path.exists(spec_path):
        json.dump(SPECS[case["spec"]], open(spec_path, "w"))
    viols: list[Violation] = []
    import io
    import logging

    logging.disable(logging.CRITICAL)
    try:
        seed_sentinels(root, out_pkg, core)
        kw = dict(spec_path=spec_path, project_root=root, output_package=out_pkg, core_package=core, no_postprocess=True)
        if case["existing"] != "absent":
            with contextlib.redirect_stdout(io.StringIO()):
                generate_client(force=True, **kw)
            if case["existing"] == "edited":
                with open(os.path.join(root, out_pkg.replace(".", "/"), "client.py"), "a") as f:
                    f.write("\n# local edit\n")
            elif case["existing"] == "partial":
                shutil.rmtree(os.path.join(root, core_pkg.replace(".", "/")), ignore_errors=True)
            elif case["existing"] == "core_edited":
                with open(os.path.join(root, core_pkg.replace(".", "/"), "config.py"), "a") as f:
                    f.write("\n# local edit\n")
        before = snapshot(root)
        fault = case.get("fault") or {}
        stage = fault.get("name") if fault.get("kind") == "stage" else None
        fail_at = fault.get("k") if fault.get("kind") == "write" else None
        if stage == "PostprocessManager.run":
            kw["no_postprocess"] = False
        raised = None
        with auditing(root, fail_at) as aud, stage_fault(stage), contextlib.redirect_stdout(io.StringIO()):
            try:
                generate_client(force=case["force"], **kw)
            except BaseException as e:  # noqa: BLE001 - the outcome is data
                if isinstance(e, (KeyboardInterrupt, SystemExit)):
                    raise
                raised = e
            log = list(aud["log"])
            n_writes = aud["writes"]
        after = snapshot(root)
        changed = sorted(k for k in set(before) | set(after) if before.get(k) != after.get(k))
        mode = ("force" if case["force"] else "noforce") + "_" + case["existing"]
        fk = (fault.get("kind", "none") + (":" + fault["name"] if fault.get("kind") == "stage" else ""))
        existing_out = case["existing"] != "absent"
        if not case["force"] and existing_out:
            if changed:
                viols.append(Violation(("noforce_touched_existing_tree", fk.split(":")[0], case["existing"]), f"{mode} fault={fk}: {changed[:6]}"))
            touching = [e for e in log]
            if touching:
                viols.append(Violation(("noforce_wrote_under_project_root", fk.split(":")[0], case["existing"]), f"{mode} fault={fk}: {touching[:4]}"))
            if raised is None and case["existing"] in ("edited", "partial", "core_edited"):
                viols.append(Violation(("noforce_success_over_differing_tree", case["existing"]), f"{mode} fault={fk}"))
            if raised is None and fault:
                if not (fault.get("kind") == "write"):  # a write fault can only fire if something is written
                    viols.append(Violation(("injected_failure_swallowed", fk), f"{mode}"))
        escaped = [c for c in changed if not allowed(c, out_pkg, core_pkg, before)]
        if escaped:
            viols.append(Violation(("write_outside_allowed_dirs", "snapshot", case["layout"]), f"{mode} fault={fk}: {escaped[:6]}"))
        esc_log = sorted({os.path.relpath(p, root) for ev, p in log if p != os.path.abspath(root) and not allowed(os.path.relpath(p, root), out_pkg, core_pkg, before)})
        if esc_log:
            viols.append(Violation(("write_outside_allowed_dirs", "audit_log", case["layout"]), f"{mode} fault={fk}: {esc_log[:6]}"))
        case["_n_writes"] = n_writes
        case["_raised"] = type(raised).__name__ if raised else None
        return viols
    finally:
        logging.disable(logging.NOTSET)
        shutil.rmtree(root, ignore_errors=True)


def evaluate(case: dict) -> list[Violation]:
    c = {k: v for k, v in case.items() if not k.startswith("_")}
    return run_case(c)


SHRINK = False  # cases are already atomic points of an enumeration


def shards(tier: str, seed: int) -> list[dict]:
    out = []
    for layout in LAYOUTS:
        for spec in range(len(SPECS)):
            out.append({"layout": layout, "spec": spec, "stride": 3 if tier == "quick" else 1, "offset": seed % 3})
    return out


def run_shard(shard: dict) -> dict:
    col = Collector()
    layout, spec = shard["layout"], shard["spec"]
    for force, existing in itertools.product([False, True], EXISTING):
        base = {"layout": layout, "spec": spec, "force": force, "existing": existing, "fault": None}
        v = run_case(base)
        n_writes = base.get("_n_writes", 0)
        col.record({k: x for k, x in base.items() if not k.startswith("_")}, v, existing in ("edited", "partial", "core_edited"), [f"fault_none", "force" if force else "noforce", "existing_" + existing])
        for st in STAGES:
            c = {**{k: x for k, x in base.items() if not k.startswith("_")}, "fault": {"kind": "stage", "name": st}}
            v = run_case(c)
            nt = existing in ("edited", "partial", "core_edited") or st not in ("fetch_spec", "load_ir_from_spec")
            col.record({k: x for k, x in c.items() if not k.startswith("_")}, v, nt, ["fault_stage", "force" if force else "noforce", "existing_" + existing])
        ks = list(range(1, n_writes + 1))
        if shard["stride"] > 1:
            ks = [k for k in ks if k % shard["stride"] == shard["offset"] % shard["stride"] or k in (1, n_writes)]
        for k in ks:
            c = {**{kk: x for kk, x in base.items() if not kk.startswith("_")}, "fault": {"kind": "write", "k": k}}
            v = run_case(c)
            col.record({kk: x for kk, x in c.items() if not kk.startswith("_")}, v, k > 1 or existing in ("edited", "partial", "core_edited"), ["fault_write", "force" if force else "noforce", "existing_" + existing])
        col.extra.setdefault("writes_in_fault_free_run", {})
        col.extra["writes_in_fault_free_run"][f"{layout}/{spec}/{'force' if force else 'noforce'}/{existing}"] = n_writes
    if shard["stride"] == 1:
        col.exhaustive = True
    return col.to_dict()
