"""C08 — parsing cyclic and deep schema graphs terminates with balanced cycle-tracker state.

(a) exhaustive graph strata of pbt/graphs.py (N=2 with <=2 edges, N=3 with <=1 edge; all declaration orders; 3 name
    profiles) + alias/array top-level schemas;  (b) $ref chains and inline nesting of length limit-2 .. limit+3 for
PYOPENAPI_MAX_DEPTH in {5, 10, 50, 150} on a default-recursion-limit stack;  (c) Hypothesis multigraphs (<=5 names).
Oracle per parse (enter/exit wrapped from the harness): well-nested events, depth never negative; after EACH top-level
schema recursion_depth == 0 and schema_stack == []; at the end every state terminal, every declared name present;
no RecursionError; total enter events <= B(size) (deterministic termination budget).
"""

from __future__ import annotations

import itertools
import json
import os

from .. import graphparse, graphs
from ..runner import Collector, Violation

PROPERTY_ID = "C08"
LEVEL = "exploration"
RULE = (
    "case = (stratum, name profile, declaration order, graph index) from the exhaustive families of pbt/graphs.py [every "
    "edge kind: $ref, array, inline object, array of inline object, additionalProperties, oneOf, anyOf, allOf; self, "
    "mutual and longer cycles, multi-edges], or (max-depth setting, chain kind, length) from the depth grid, or a "
    "Hypothesis multigraph over <=5 schemas incl. alias/array/enum top-level schemas. Non-trivial = the graph has a cycle "
    "of length >= 2, or the chain is longer than the limit. Enumerated cases are distinct by construction."
)
ASSUMPTIONS = [
    "termination is decided by a deterministic event budget B = 200*(nodes+edges+2)^2 enter events per document, 100*(nodes+edges+2) for the linear chain documents (no wall clock)",
    "exceptions other than RecursionError raised by the loader are rejections, EXCEPT the loader's own post-condition 'Schema X was not parsed' which contradicts 'every declared schema name is present'",
    "the interpreter recursion limit is the default 1000 (as under the CLI)",
]
MIN_NONTRIVIAL = {"quick": 50000, "thorough": 50000}

KNOWN_BITMAP = os.path.join(os.path.dirname(os.path.dirname(os.path.dirname(os.path.abspath(__file__)))), "known", "C08_bitmap.json")


def budget_for(schemas: dict) -> int:
    size, stack = 2, [schemas]
    while stack:  # iterative: deep inline nesting must not overflow the HARNESS stack
        x = stack.pop()
        if isinstance(x, dict):
            size += 1 if ("$ref" in x or "properties" in x) else 0
            stack.extend(x.values())
        elif isinstance(x, list):
            stack.extend(x)
    return 200 * size * size


def check_trace(t: graphparse.Trace, schemas: dict) -> list[Violation]:
    from pyopenapi_gen.core.parsing.unified_cycle_detection import SchemaState
    from pyopenapi_gen.core.utils import NameSanitizer

    v: list[Violation] = []
    if t.budget_exceeded:
        return [Violation(("termination_budget_exceeded",), f"more than {budget_for(schemas)} enter events")]
    if t.recursion_error:
        return [Violation(("recursion_error",), repr(t.exc)[:300])]
    if t.exc is not None:
        msg = str(t.exc)
        if "was not parsed" in msg:
            import re as _re

            m = _re.search(r"Schema '([^']+)'", msg)
            node = schemas.get(m.group(1)) if m else None
            what = "pure_ref_alias" if isinstance(node, dict) and set(node) <= {"$ref", "description"} and "$ref" in node else "other_schema"
            v.append(Violation(("declared_schema_missing", "postcondition_raised", what), msg[:300]))
        else:
            return []  # rejection
    # NOTE: surplus exit events (a clamped double exit) are not observable in the tracker's state and are not claimed by the
    # property; they are counted as a diagnostic class only (see run_shard), never reported.
    for name, depth, stack in t.after_top:
        if depth != 0 or stack:
            v.append(Violation(("not_at_rest_after_top_level",), f"after {name}: depth={depth} stack={stack}"))
            break
    ctx = t.context
    if ctx is not None and t.exc is None:
        u = ctx.unified_cycle_context
        terminal = {SchemaState.COMPLETED, SchemaState.PLACEHOLDER_CYCLE, SchemaState.PLACEHOLDER_DEPTH, SchemaState.PLACEHOLDER_SELF_REF}
        bad = sorted(f"{n}:{s.value}" for n, s in u.schema_states.items() if s not in terminal)
        if bad:
            v.append(Violation(("non_terminal_state", bad[0].split(":")[1]), f"{bad[:5]}"))
        for n in schemas:
            if n not in ctx.parsed_schemas and NameSanitizer.sanitize_class_name(n) not in ctx.parsed_schemas:
                v.append(Violation(("declared_schema_missing", "silently"), n))
                break
    return v


# ---------------------------------------------------------------------------------------------
# case kinds


def schemas_of(case: dict) -> dict:
    k = case["kind"]
    if k == "graph":
        st = next(s for s in graphs.strata("quick") + EXTRA_STRATA if s["name"] == case["stratum"])
        n = st["n"]
        g = graphs.graph_at(n, st["max_edges"], case["g"])
        order = list(itertools.permutations(range(n)))[case["o"]]
        return graphs.render(g, graphs.PROFILES[case["p"]][:n], order)
    if k == "raw":
        return case["schemas"]
    if k == "chain":
        return chain_schemas(case["chain"], case["length"])
    raise ValueError(k)


EXTRA_STRATA = [{"name": "n3e2", "n": 3, "max_edges": 2}]


def chain_schemas(kind: str, length: int) -> dict:
    R = lambda i: {"$ref": f"#/components/schemas/S{i}"}  # noqa: E731
    if kind == "ref_chain":  # S0 -> S1 -> ... -> S(L-1); declared deepest-first would hide the depth, so declare root first
        out = {}
        for i in range(length):
            props = {"v": {"type": "string"}}
            if i + 1 < length:
                props["next"] = R(i + 1)
            out[f"S{i}"] = {"type": "object", "properties": props}
        out["After"] = {"type": "object", "properties": {"z": {"type": "string"}}}
        return out
    if kind == "array_chain":
        out = {}
        for i in range(length):
            props = {"v": {"type": "string"}}
            if i + 1 < length:
                props["next"] = {"type": "array", "items": R(i + 1)}
            out[f"S{i}"] = {"type": "object", "properties": props}
        out["After"] = {"type": "object", "properties": {"z": {"type": "string"}}}
        return out
    if kind == "inline_nesting":
        node = {"type": "object", "properties": {"leaf": {"type": "string"}}}
        for i in range(length):
            node = {"type": "object", "properties": {f"p{i % 3}": node}}
        return {"Deep": node, "After": {"type": "object", "properties": {"z": {"type": "string"}}}}
    if kind == "backref_chain":  # every schema refers back to its predecessor before going forward
        out = {}
        for i in range(length):
            props = {"v": {"type": "string"}}
            if i > 0:
                props["prev"] = R(i - 1)
            props["me"] = R(i)
            if i + 1 < length:
                props["next"] = R(i + 1)
            out[f"S{i}"] = {"type": "object", "properties": props}
        out["After"] = {"type": "object", "properties": {"z": {"type": "string"}}}
        return out
    if kind in ("toplevel_array_chain", "toplevel_map_chain", "mixed_container_chain", "composition_chain", "allof_anyof_chain"):
        out = {}
        for i in range(length):
            last = i + 1 >= length
            nxt = {"type": "string"} if last else R(i + 1)
            k = kind if kind != "mixed_container_chain" else ["object", "toplevel_array_chain", "toplevel_map_chain"][i % 3]
            if k == "toplevel_array_chain":
                out[f"S{i}"] = {"type": "array", "items": nxt}
            elif k == "toplevel_map_chain":
                out[f"S{i}"] = {"type": "object", "additionalProperties": nxt}
            elif k == "composition_chain":
                out[f"S{i}"] = {"type": "object", "properties": {"v": {"type": "string"}, "next": nxt,
                                                                 "alt": {"type": "object", "additionalProperties": {"oneOf": [nxt, {"type": "integer"}]}}}}
            elif k == "allof_anyof_chain":
                out[f"S{i}"] = {"allOf": [{"anyOf": [nxt, {"type": "integer"}]}, {"type": "object", "properties": {"v": {"type": "string"}}}]}
            else:
                out[f"S{i}"] = {"type": "object", "properties": {"v": {"type": "string"}, "next": nxt}}
        out["After"] = {"type": "object", "properties": {"z": {"type": "string"}}}
        return out
    raise ValueError(kind)


def _has_depth_marker(ctx) -> bool:
    return any(getattr(s, "_max_depth_exceeded_marker", False) for s in ctx.parsed_schemas.values())


def _refs(n) -> list[str]:
    out: list[str] = []
    if isinstance(n, dict):
        if isinstance(n.get("$ref"), str):
            out.append(n["$ref"].split("/")[-1])
        for x in n.values():
            out += _refs(x)
    elif isinstance(n, list):
        for x in n:
            out += _refs(x)
    return out


def _inline_object_refs(n) -> list[str]:
    out: list[str] = []
    if isinstance(n, dict):
        if isinstance(n.get("properties"), dict):
            out += _refs(n["properties"])
        for x in n.values():
            out += _inline_object_refs(x)
    elif isinstance(n, list):
        for x in n:
            out += _inline_object_refs(x)
    return out


def union_inline_object_cycle(schemas: dict) -> bool:
    """Trigger of C08-F03: a named oneOf/anyOf schema with an inline object (at any depth) whose $ref leads back to that schema."""
    def reach(start):
        seen, todo = set(), [start]
        while todo:
            u = todo.pop()
            if u in seen or u not in schemas:
                continue
            seen.add(u)
            todo += _refs(schemas[u])
        return seen

    for name, node in schemas.items():
        if isinstance(node, dict) and ("oneOf" in node or "anyOf" in node):
            if any(name in reach(t) for t in _inline_object_refs(node)):
                return True
    return False


_EXCL = None


def union_inline_object_cycle_excluded(schemas: dict) -> bool:
    global _EXCL
    if _EXCL is None:
        from .. import domain

        _EXCL = domain.excluded("C08")
    return "union_inline_object_cycle" in _EXCL and union_inline_object_cycle(schemas)


def cut_by_cycle_detection(schemas: dict) -> list[Violation]:
    """A SMALL cyclic document must be cut by cycle detection, not by the depth limit: with the limit switched off it still has to
    load within the event budget and without exhausting the interpreter stack (the property quantifies over PYOPENAPI_MAX_DEPTH
    settings; a limit above ~280 tracker levels is otherwise a stack overflow waiting for the first such cycle)."""
    if budget_for(schemas) > 200 * 60 * 60:
        return []
    old = os.environ.get("PYOPENAPI_MAX_DEPTH")
    os.environ["PYOPENAPI_MAX_DEPTH"] = "1000000"
    try:
        t = graphparse.build(schemas, budget_for(schemas))
    finally:
        if old is None:
            os.environ.pop("PYOPENAPI_MAX_DEPTH", None)
        else:
            os.environ["PYOPENAPI_MAX_DEPTH"] = old
    if t.recursion_error:
        return [Violation(("cycle_cut_only_by_depth_limit", "recursion_error_with_limit_off"), f"tracker depth {t.max_tracker_depth} after {t.enters} enters; schemas={json.dumps(schemas)[:600]}")]
    if t.budget_exceeded:
        return [Violation(("cycle_cut_only_by_depth_limit", "event_budget_exceeded_with_limit_off"), f"schemas={json.dumps(schemas)[:600]}")]
    return []


def evaluate_ops(case: dict) -> list[Violation]:
    """Whole documents through load_ir_from_spec: operations whose inline request/response schemas contain sub-schemas the parser
    rejects (boolean schemas, lists, scalars).  parse_operations swallows such a failure per operation and goes on with the SAME
    parsing context, so the tracker must be back at rest after the document, and operations parsed afterwards must be unaffected."""
    from pyopenapi_gen.core.loader import loader as L
    from pyopenapi_gen.core.parsing.unified_cycle_detection import SchemaState

    spec = case["spec"]
    captured: dict = {}
    real_build = L.build_schemas

    def capturing(raw_schemas, raw_components):
        ctx = real_build(raw_schemas, raw_components)
        captured["ctx"] = ctx
        return ctx

    old = os.environ.get("PYOPENAPI_MAX_DEPTH")
    if case.get("limit"):
        os.environ["PYOPENAPI_MAX_DEPTH"] = str(case["limit"])
    L.build_schemas = capturing
    ir = None
    exc = None
    try:
        try:
            ir = graphparse.load_ir(spec)
        except RecursionError as e:
            return [Violation(("ops", "recursion_error"), repr(e)[:200])]
        except Exception as e:  # whole-document rejection
            exc = e
    finally:
        L.build_schemas = real_build
        if old is None:
            os.environ.pop("PYOPENAPI_MAX_DEPTH", None)
        else:
            os.environ["PYOPENAPI_MAX_DEPTH"] = old
    ctx = captured.get("ctx")
    if ctx is None or exc is not None:
        return []
    v: list[Violation] = []
    tr = ctx.unified_cycle_context
    if tr.schema_stack or tr.recursion_depth != 0:
        v.append(Violation(("ops", "tracker_not_at_rest_after_document"), f"depth={tr.recursion_depth} stack={list(tr.schema_stack)[:6]}"))
    leaked = sorted(n for n, st in tr.schema_states.items() if st == SchemaState.IN_PROGRESS)
    if leaked:
        v.append(Violation(("ops", "schema_left_in_progress"), f"{leaked[:6]}"))
    # the sentinel operation (declared last, always valid, two levels of inline nesting) must come out intact
    sent = [o for o in (ir.operations if ir else []) if o.operation_id == "sentinelOp"]
    if not sent:
        v.append(Violation(("ops", "valid_operation_dropped"), "sentinelOp missing from the IR"))
    else:
        resp = next((r for r in sent[0].responses if str(r.status_code) == "200"), None)
        sch = next(iter(resp.content.values()), None) if resp and resp.content else None
        page = (sch.properties or {}).get("page") if sch is not None else None
        if page is not None and getattr(page, "_refers_to_schema", None) is not None:  # inline object promoted to a named schema
            page = page._refers_to_schema
        if sch is None or page is None or getattr(sch, "_max_depth_exceeded_marker", False) or getattr(page, "_max_depth_exceeded_marker", False) \
                or "size" not in (getattr(page, "properties", None) or {}):
            v.append(Violation(("ops", "valid_operation_after_faulty_ones_degraded"), f"sentinel response schema: {sch!r}"[:300]))
    return v


def _ops_strategy():
    from hypothesis import strategies as st

    R = lambda n: {"$ref": "#/components/schemas/" + n}  # noqa: E731
    bad_values = [True, False, [], ["x"], "string", 3, 0.5]

    @st.composite
    def spec(draw):
        schemas = {"Folder": {"type": "object", "properties": {"name": {"type": "string"}, "parent": R("Folder"), "docs": {"type": "array", "items": R("Doc")}}},
                   "Doc": {"type": "object", "properties": {"title": {"type": "string"}, "folder": R("Folder")}}}
        paths = {}
        n_ops = draw(st.integers(1, 6))
        n_bad = 0
        for i in range(n_ops):
            faulty = draw(st.booleans())
            leaf = draw(st.sampled_from(bad_values)) if faulty else {"type": "string"}
            n_bad += 1 if faulty else 0
            node = leaf
            for _ in range(draw(st.integers(0, 3))):
                w = draw(st.sampled_from(["obj", "arr", "oneof", "map", "allof"]))
                if w == "obj":
                    node = {"type": "object", "properties": {"title": {"type": "string"}, "folder": R("Folder"), "inner": node}}
                elif w == "arr":
                    node = {"type": "array", "items": node}
                elif w == "oneof":
                    node = {"oneOf": [R("Doc"), node]}
                elif w == "map":
                    node = {"type": "object", "additionalProperties": node}
                else:
                    node = {"allOf": [R("Doc"), {"type": "object", "properties": {"own": node}}]}
            body = {"type": "object", "properties": {"title": {"type": "string"}, "folder": R("Folder"), "payload": node}}
            where = draw(st.sampled_from(["request", "response", "param"]))
            op = {"operationId": f"op{i}", "responses": {"200": {"description": "ok", "content": {"application/json": {"schema": R("Doc")}}}}}
            if where == "request":
                op["requestBody"] = {"required": True, "content": {"application/json": {"schema": body}}}
            elif where == "response":
                op["responses"]["200"]["content"]["application/json"]["schema"] = body
            else:
                op["parameters"] = [{"name": "filter", "in": "query", "schema": node if isinstance(node, dict) else {"type": "array", "items": node}}]
            paths[f"/r{i}"] = {"post": op}
        paths["/sentinel"] = {"get": {"operationId": "sentinelOp", "responses": {"200": {"description": "ok", "content": {"application/json": {"schema": {
            "type": "object", "properties": {"items": {"type": "array", "items": R("Folder")}, "total": {"type": "integer"},
                                             "page": {"type": "object", "properties": {"next": {"type": "string"}, "size": {"type": "integer"}}}}}}}}}}}
        return {"kind": "ops", "limit": draw(st.sampled_from([None, None, 4, 6, 10])), "n_bad": n_bad,
                "spec": {"openapi": "3.1.0", "info": {"title": "t", "version": "1"}, "paths": paths, "components": {"schemas": schemas}}}

    return spec()


def evaluate(case: dict) -> list[Violation]:
    if case["kind"] == "graph" and not case.get("_plain"):
        bm = load_bitmap()
        v = evaluate({**case, "_plain": True})
        if v and f"{case['stratum']}/{case['p']}/{case['o']}" in bm.get("strata", {}) and not bitmap_get(bm, case["stratum"], case["p"], case["o"], case["g"]):
            return [Violation(("not_in_known_failing_set",) + tuple(x.sig), x.detail) for x in v]
        return v
    if case["kind"] == "ops":
        return evaluate_ops(case)
    schemas = schemas_of(case)
    old = os.environ.get("PYOPENAPI_MAX_DEPTH")
    if case["kind"] == "chain":
        os.environ["PYOPENAPI_MAX_DEPTH"] = str(case["limit"])
    try:
        # chains are linear documents: the unchanged loader needs < 3 enter events per node for them, 100 per node is the budget
        budget = (100 * int((budget_for(schemas) // 200) ** 0.5)) if case["kind"] == "chain" else budget_for(schemas)
        t = graphparse.build(schemas, budget)
        v = check_trace(t, schemas)
        if case["kind"] == "raw" and not v and t.exc is None and not case.get("skip_limit_off_clause"):
            v.extend(cut_by_cycle_detection(schemas))
        if case["kind"] == "chain" and t.context is not None and t.exc is None and not t.recursion_error:
            marker = _has_depth_marker(t.context)
            # differential calibration: the same document with the limit switched off tells how deep the TRACKER's own
            # depth measure goes for it (several named enters per hop); the limit must cut iff that exceeds it
            os.environ["PYOPENAPI_MAX_DEPTH"] = "1000000"
            t_inf = graphparse.build(schemas, budget_for(schemas))
            os.environ["PYOPENAPI_MAX_DEPTH"] = str(case["limit"])
            if not t_inf.recursion_error and t_inf.exc is None:
                d_inf = t_inf.max_tracker_depth
                if marker and d_inf <= case["limit"]:
                    v.append(Violation(("depth_marker_without_excess",), f"limit={case['limit']} length={case['length']} unlimited_depth={d_inf}"))
                # (composition sub-parsers read the limit once at import time; the harness changes it per case, so the "fires exactly
                #  when exceeded" direction is only asserted for the chain kinds that go through the per-call check)
                if not marker and d_inf > case["limit"] + 1 and case["chain"] in ("ref_chain", "array_chain", "inline_nesting", "backref_chain"):
                    v.append(Violation(("depth_limit_never_fired",), f"limit={case['limit']} length={case['length']} unlimited_depth={d_inf} depth_with_limit={t.max_tracker_depth}"))
            after = t.context.parsed_schemas.get("After")
            if after is None or "z" not in (after.properties or {}) or getattr(after, "_max_depth_exceeded_marker", False):
                v.append(Violation(("schema_after_deep_one_affected",), f"After={after!r}"[:300]))
        elif case["kind"] == "chain" and t.exc is not None and not t.recursion_error and not v:
            # the load was ABORTED with the limit in force: the limit is supposed to degrade to placeholders, so the same document
            # must fail in the same way with the limit switched off (then it is a rejection of the document, not of the depth)
            os.environ["PYOPENAPI_MAX_DEPTH"] = "1000000"
            t_inf = graphparse.build(schemas, budget_for(schemas))
            os.environ["PYOPENAPI_MAX_DEPTH"] = str(case["limit"])
            if t_inf.exc is None and not t_inf.recursion_error and not t_inf.budget_exceeded:
                v.append(Violation(("depth_limit_aborts_load", type(t.exc).__name__), f"limit={case['limit']} length={case['length']} chain={case['chain']}: {t.exc!r}"[:300]))
        return v
    finally:
        if old is None:
            os.environ.pop("PYOPENAPI_MAX_DEPTH", None)
        else:
            os.environ["PYOPENAPI_MAX_DEPTH"] = old


# ---------------------------------------------------------------------------------------------
# known-failing bitmap of the exhaustive strata (committed; never written by a check)


def load_bitmap() -> dict:
    if not os.path.exists(KNOWN_BITMAP):
        return {}
    with open(KNOWN_BITMAP) as f:
        return json.load(f)


def bitmap_get(bm: dict, stratum: str, p: int, o: int, g: int) -> bool:
    import base64

    ent = bm.get("strata", {}).get(f"{stratum}/{p}/{o}")
    if ent is None:
        return False
    raw = bm.setdefault("_decoded", {}).get(f"{stratum}/{p}/{o}")
    if raw is None:
        import zlib

        raw = zlib.decompress(base64.b64decode(ent))
        bm["_decoded"][f"{stratum}/{p}/{o}"] = raw
    return bool(raw[g >> 3] >> (g & 7) & 1)


def shards(tier: str, seed: int) -> list[dict]:
    out = []
    for st in graphs.strata(tier):
        n = st["n"]
        total = graphs.count(n, st["max_edges"])
        n_orders = len(list(itertools.permutations(range(n))))
        for p in range(len(graphs.PROFILES)):
            for o in range(n_orders):
                # split big strata
                parts = 4 if total > 30000 else 1
                for part in range(parts):
                    out.append({"mode": "graphs", "stratum": st["name"], "p": p, "o": o, "part": part, "parts": parts})
    if tier == "thorough":
        st = EXTRA_STRATA[0]
        total = graphs.count(3, 2)
        sel = seed % 18
        p, o = sel // 6, sel % 6
        for part in range(64):
            out.append({"mode": "graphs", "stratum": st["name"], "p": p, "o": o, "part": part, "parts": 64, "sample_stride": 48})
    out.append({"mode": "chains"})
    n_o, per_o = (8, 150) if tier == "quick" else (32, 1500)
    out += [{"mode": "ops", "seed": seed * 1000 + 700 + i, "n": per_o} for i in range(n_o)]
    n_h, per = (16, 400) if tier == "quick" else (48, 4000)
    out += [{"mode": "hyp", "seed": seed * 1000 + i, "n": per} for i in range(n_h)]
    return out


def _multigraph_strategy():
    from hypothesis import strategies as st

    names = ["A", "AItem", "B", "User", "UserGroup", "Children", "pet_owner", "Node"]

    @st.composite
    def spec(draw):
        n = draw(st.integers(1, 5))
        ns = draw(st.lists(st.sampled_from(names), min_size=n, max_size=n, unique=True))
        R = lambda: {"$ref": "#/components/schemas/" + draw(st.sampled_from(ns))}  # noqa: E731

        def node(d):
            k = draw(st.sampled_from(["ref", "ref", "str", "arr", "map", "obj", "oneof", "anyof", "allof", "enum", "arrobj"] if d > 0 else ["ref", "str"]))
            if k == "ref":
                return R()
            if k == "str":
                return {"type": draw(st.sampled_from(["string", "integer", "boolean"]))}
            if k == "arr":
                return {"type": "array", "items": node(d - 1)}
            if k == "map":
                return {"type": "object", "additionalProperties": node(d - 1)}
            if k == "obj":
                return {"type": "object", "properties": {pn: node(d - 1) for pn in draw(st.lists(st.sampled_from(["a", "b", "item", "children"]), max_size=3, unique=True))}}
            if k == "arrobj":
                return {"type": "array", "items": {"type": "object", "properties": {"x": node(d - 1)}}}
            if k in ("oneof", "anyof"):
                return {k[:3] + "Of": [node(d - 1) for _ in range(draw(st.integers(1, 3)))]}
            if k == "allof":
                return {"allOf": [R(), {"type": "object", "properties": {"own": node(d - 1)}}]}
            return {"type": "string", "enum": ["a", "b"]}

        out = {}
        for name in ns:
            top = draw(st.sampled_from(["obj", "obj", "obj", "alias", "arr", "union", "allof", "enum", "map"]))
            if top == "obj":
                out[name] = {"type": "object", "properties": {pn: node(2) for pn in draw(st.lists(st.sampled_from(["a", "b", "c", "item", "children", "parent"]), min_size=1, max_size=4, unique=True))}}
            elif top == "alias":
                out[name] = R()
            elif top == "arr":
                out[name] = {"type": "array", "items": node(1)}
            elif top == "union":
                out[name] = {draw(st.sampled_from(["oneOf", "anyOf"])): [node(1) for _ in range(draw(st.integers(1, 3)))]}
            elif top == "allof":
                out[name] = {"allOf": [R(), {"type": "object", "properties": {"own": node(1)}}]}
            elif top == "map":
                out[name] = {"type": "object", "additionalProperties": node(1)}
            else:
                out[name] = {"type": "string", "enum": ["x", "y"]}
        return out

    return spec()


def _raw_cyclic(schemas: dict) -> bool:
    from ..specgen import _refs_in

    graph = {n: [t for _, t in _refs_in(node) if t in schemas] for n, node in schemas.items()}
    color: dict = {}

    def dfs(u):
        color[u] = 1
        for v in graph[u]:
            if v != u and (color.get(v) == 1 or (color.get(v) is None and dfs(v))):
                return True
        color[u] = 2
        return False

    return any(color.get(n) is None and dfs(n) for n in graph)


def run_shard(shard: dict) -> dict:
    col = Collector()
    bm = load_bitmap()
    if shard["mode"] == "graphs":
        stname = shard["stratum"]
        st = next(s for s in graphs.strata("quick") + EXTRA_STRATA if s["name"] == stname)
        n = st["n"]
        opts = graphs.schema_options(n, st["max_edges"])
        total = len(opts) ** n
        order = list(itertools.permutations(range(n)))[shard["o"]]
        names = graphs.PROFILES[shard["p"]][:n]
        stride = shard.get("sample_stride", 1)
        ev = nt = known_fail = 0
        failing_now = 0
        for g in range(shard["part"], total, shard["parts"] * stride):
            graph = graphs.graph_at(n, st["max_edges"], g, opts)
            schemas = graphs.render(graph, names, order)
            t = graphparse.build(schemas, budget_for(schemas))
            viols = check_trace(t, schemas)
            ev += 1
            if graphs.has_cycle_len_ge2(graph):
                nt += 1
            if viols:
                failing_now += 1
                if bitmap_get(bm, stname, shard["p"], shard["o"], g):
                    known_fail += 1
                    col.extra.setdefault("known_failing_signatures", {})
                    for v in viols:
                        k = json.dumps(list(v.sig))
                        col.extra["known_failing_signatures"][k] = col.extra["known_failing_signatures"].get(k, 0) + 1
                    continue
                case = {"kind": "graph", "stratum": stname, "p": shard["p"], "o": shard["o"], "g": g}
                covered = f"{stname}/{shard['p']}/{shard['o']}" in bm.get("strata", {})
                for v in viols:
                    # inside a stratum whose failing set is recorded exactly, a failure outside that set is new by definition
                    sig = (("not_in_known_failing_set",) + tuple(v.sig)) if covered else v.sig
                    col.add_violation(Violation(sig, v.detail + f" schemas={json.dumps(schemas)[:700]}"), case)
        col.bulk(ev, nt, {f"stratum_{stname}": ev, "cyclic_len_ge2": nt}, sample={"kind": "graph", "stratum": stname, "p": shard["p"], "o": shard["o"], "g": shard["part"], "schemas": graphs.render(graphs.graph_at(n, st["max_edges"], total // 3, opts), names, order)} if shard["part"] == 0 else None)
        col.extra["known_failing_graphs_seen"] = known_fail
        col.extra["failing_graphs_now"] = failing_now
        if stride == 1:
            col.exhaustive = True
        return col.to_dict()
    if shard["mode"] == "ops":
        from .. import hyp as _hyp

        for case in _hyp.draw_cases(_ops_strategy(), shard["n"], shard["seed"]):
            col.record(case, evaluate(case), case["n_bad"] >= 1, ["ops_documents", "ops_with_rejected_subschema" if case["n_bad"] else "ops_all_valid", f"ops_limit_{case['limit']}"])
        return col.to_dict()
    if shard["mode"] == "chains":
        for limit in (5, 10, 50, 150):
            for kind in ("ref_chain", "array_chain", "inline_nesting", "backref_chain", "toplevel_array_chain", "toplevel_map_chain",
                         "mixed_container_chain", "composition_chain", "allof_anyof_chain"):
                lengths = {max(1, limit // 3), max(1, limit - 2), limit - 1, limit, limit + 1, limit + 2, limit + 3, 2 * limit + 5, 420}
                if kind == "inline_nesting":
                    lengths = {l for l in lengths if l <= 150}  # deeper documents cannot be read by json/yaml loaders themselves
                for length in sorted(lengths):
                    case = {"kind": "chain", "chain": kind, "length": length, "limit": limit}
                    viols = evaluate(case)
                    col.record(case, viols, length > limit, [f"chain_{kind}", f"limit_{limit}", "over_limit" if length > limit else "within_limit"])
        return col.to_dict()
    from .. import hyp

    def body(schemas):
        case = {"kind": "raw", "schemas": schemas}
        if union_inline_object_cycle_excluded(schemas):
            col.excluded["union_inline_object_cycle"] += 1  # only the limit-off clause is skipped for these
            case["skip_limit_off_clause"] = True
        col.record(case, evaluate(case), _raw_cyclic(schemas), ["multigraph", "multigraph_cyclic" if _raw_cyclic(schemas) else "multigraph_acyclic"])

    hyp.run_cases(_multigraph_strategy(), shard["n"], shard["seed"], body)
    return col.to_dict()


def evaluate_graph(graph, names, order) -> list[Violation]:
    schemas = graphs.render(graph, names, order)
    return check_trace(graphparse.build(schemas, budget_for(schemas)), schemas)
