"""C08 — parsing cyclic and deep schema graphs terminates with balanced cycle-tracker state.

(a) exhaustive graph strata of pbt/graphs.py (N=2 with <=2 edges, N=3 with <=1 edge; all declaration orders; 3 name
    profiles) + alias/array top-level schemas;  (b) $ref chains and inline nesting of length limit-2 .. limit+3 for
PYOPENAPI_MAX_DEPTH in {5, 10, 50, 150} on a default-recursion-limit stack;  (c) Hypothesis multigraphs (<=5 names).
Oracle per parse (enter/exit wrapped from the harness): well-nested events, depth never negative; after EACH top-level
schema recursion_depth == 0 and schema_stack == []; at the end every state terminal, every declared name present;
no RecursionError; total enter events <= B(size) (deterministic termination budget).
"""

from __future__ import annotations

import itertools
import json
import os

from .. import graphparse, graphs
from ..runner import Collector, Violation

PROPERTY_ID = "C08"
LEVEL = "exploration"
RULE = (
    "case = (stratum, name profile, declaration order, graph index) from the exhaustive families of pbt/graphs.py [every "
    "edge kind: $ref, array, inline object, array of inline object, additionalProperties, oneOf, anyOf, allOf; self, "
    "mutual and longer cycles, multi-edges], or (max-depth setting, chain kind, length) from the depth grid, or a "
    "Hypothesis multigraph over <=5 schemas incl. alias/array/enum top-level schemas. Non-trivial = the graph has a cycle "
    "of length >= 2, or the chain is longer than the limit. Enumerated cases are distinct by construction."
)
ASSUMPTIONS = [
    "termination is decided by a deterministic event budget B = 200*(nodes+edges+2)^2 enter events per document (no wall clock)",
    "exceptions other than RecursionError raised by the loader are rejections, EXCEPT the loader's own post-condition 'Schema X was not parsed' which contradicts 'every declared schema name is present'",
    "the interpreter recursion limit is the default 1000 (as under the CLI)",
]
MIN_NONTRIVIAL = {"quick": 50000, "thorough": 50000}

KNOWN_BITMAP = os.path.join(os.path.dirname(os.path.dirname(os.path.dirname(os.path.abspath(__file__)))), "known", "C08_bitmap.json")


def budget_for(schemas: dict) -> int:
    size, stack = 2, [schemas]
    while stack:  # iterative: deep inline nesting must not overflow the HARNESS stack
        x = stack.pop()
        if isinstance(x, dict):
            size += 1 if ("$ref" in x or "properties" in x) else 0
            stack.extend(x.values())
        elif isinstance(x, list):
            stack.extend(x)
    return 200 * size * size


def check_trace(t: graphparse.Trace, schemas: dict) -> list[Violation]:
    from pyopenapi_gen.core.parsing.unified_cycle_detection import SchemaState
    from pyopenapi_gen.core.utils import NameSanitizer

    v: list[Violation] = []
    if t.budget_exceeded:
        return [Violation(("termination_budget_exceeded",), f"more than {budget_for(schemas)} enter events")]
    if t.recursion_error:
        return [Violation(("recursion_error",), repr(t.exc)[:300])]
    if t.exc is not None:
        msg = str(t.exc)
        if "was not parsed" in msg:
            v.append(Violation(("declared_schema_missing", "postcondition_raised"), msg[:300]))
        else:
            return []  # rejection
    # NOTE: surplus exit events (a clamped double exit) are not observable in the tracker's state and are not claimed by the
    # property; they are counted as a diagnostic class only (see run_shard), never reported.
    for name, depth, stack in t.after_top:
        if depth != 0 or stack:
            v.append(Violation(("not_at_rest_after_top_level",), f"after {name}: depth={depth} stack={stack}"))
            break
    ctx = t.context
    if ctx is not None and t.exc is None:
        u = ctx.unified_cycle_context
        terminal = {SchemaState.COMPLETED, SchemaState.PLACEHOLDER_CYCLE, SchemaState.PLACEHOLDER_DEPTH, SchemaState.PLACEHOLDER_SELF_REF}
        bad = sorted(f"{n}:{s.value}" for n, s in u.schema_states.items() if s not in terminal)
        if bad:
            v.append(Violation(("non_terminal_state", bad[0].split(":")[1]), f"{bad[:5]}"))
        for n in schemas:
            if n not in ctx.parsed_schemas and NameSanitizer.sanitize_class_name(n) not in ctx.parsed_schemas:
                v.append(Violation(("declared_schema_missing", "silently"), n))
                break
    return v


# ---------------------------------------------------------------------------------------------
# case kinds


def schemas_of(case: dict) -> dict:
    k = case["kind"]
    if k == "graph":
        st = next(s for s in graphs.strata("quick") + EXTRA_STRATA if s["name"] == case["stratum"])
        n = st["n"]
        g = graphs.graph_at(n, st["max_edges"], case["g"])
        order = list(itertools.permutations(range(n)))[case["o"]]
        return graphs.render(g, graphs.PROFILES[case["p"]][:n], order)
    if k == "raw":
        return case["schemas"]
    if k == "chain":
        return chain_schemas(case["chain"], case["length"])
    raise ValueError(k)


EXTRA_STRATA = [{"name": "n3e2", "n": 3, "max_edges": 2}]


def chain_schemas(kind: str, length: int) -> dict:
    R = lambda i: {"$ref": f"#/components/schemas/S{i}"}  # noqa: E731
    if kind == "ref_chain":  # S0 -> S1 -> ... -> S(L-1); declared deepest-first would hide the depth, so declare root first
        out = {}
        for i in range(length):
            props = {"v": {"type": "string"}}
            if i + 1 < length:
                props["next"] = R(i + 1)
            out[f"S{i}"] = {"type": "object", "properties": props}
        out["After"] = {"type": "object", "properties": {"z": {"type": "string"}}}
        return out
    if kind == "array_chain":
        out = {}
        for i in range(length):
            props = {"v": {"type": "string"}}
            if i + 1 < length:
                props["next"] = {"type": "array", "items": R(i + 1)}
            out[f"S{i}"] = {"type": "object", "properties": props}
        out["After"] = {"type": "object", "properties": {"z": {"type": "string"}}}
        return out
    if kind == "inline_nesting":
        node = {"type": "object", "properties": {"leaf": {"type": "string"}}}
        for i in range(length):
            node = {"type": "object", "properties": {f"p{i % 3}": node}}
        return {"Deep": node, "After": {"type": "object", "properties": {"z": {"type": "string"}}}}
    if kind == "backref_chain":  # every schema refers back to its predecessor before going forward
        out = {}
        for i in range(length):
            props = {"v": {"type": "string"}}
            if i > 0:
                props["prev"] = R(i - 1)
            props["me"] = R(i)
            if i + 1 < length:
                props["next"] = R(i + 1)
            out[f"S{i}"] = {"type": "object", "properties": props}
        out["After"] = {"type": "object", "properties": {"z": {"type": "string"}}}
        return out
    raise ValueError(kind)


def _has_depth_marker(ctx) -> bool:
    return any(getattr(s, "_max_depth_exceeded_marker", False) for s in ctx.parsed_schemas.values())


def evaluate(case: dict) -> list[Violation]:
    if case["kind"] == "graph" and not case.get("_plain"):
        bm = load_bitmap()
        v = evaluate({**case, "_plain": True})
        if v and f"{case['stratum']}/{case['p']}/{case['o']}" in bm.get("strata", {}) and not bitmap_get(bm, case["stratum"], case["p"], case["o"], case["g"]):
            return [Violation(("not_in_known_failing_set",) + tuple(x.sig), x.detail) for x in v]
        return v
    schemas = schemas_of(case)
    old = os.environ.get("PYOPENAPI_MAX_DEPTH")
    if case["kind"] == "chain":
        os.environ["PYOPENAPI_MAX_DEPTH"] = str(case["limit"])
    try:
        t = graphparse.build(schemas, budget_for(schemas))
        v = check_trace(t, schemas)
        if case["kind"] == "chain" and t.context is not None and t.exc is None and not t.recursion_error:
            marker = _has_depth_marker(t.context)
            # differential calibration: the same document with the limit switched off tells how deep the TRACKER's own
            # depth measure goes for it (several named enters per hop); the limit must cut iff that exceeds it
            os.environ["PYOPENAPI_MAX_DEPTH"] = "1000000"
            t_inf = graphparse.build(schemas, budget_for(schemas))
            os.environ["PYOPENAPI_MAX_DEPTH"] = str(case["limit"])
            if not t_inf.recursion_error and t_inf.exc is None:
                d_inf = t_inf.max_tracker_depth
                if marker and d_inf <= case["limit"]:
                    v.append(Violation(("depth_marker_without_excess",), f"limit={case['limit']} length={case['length']} unlimited_depth={d_inf}"))
                if not marker and d_inf > case["limit"] + 1:
                    v.append(Violation(("depth_limit_never_fired",), f"limit={case['limit']} length={case['length']} unlimited_depth={d_inf} depth_with_limit={t.max_tracker_depth}"))
            after = t.context.parsed_schemas.get("After")
            if after is None or "z" not in (after.properties or {}) or getattr(after, "_max_depth_exceeded_marker", False):
                v.append(Violation(("schema_after_deep_one_affected",), f"After={after!r}"[:300]))
        return v
    finally:
        if old is None:
            os.environ.pop("PYOPENAPI_MAX_DEPTH", None)
        else:
            os.environ["PYOPENAPI_MAX_DEPTH"] = old


# ---------------------------------------------------------------------------------------------
# known-failing bitmap of the exhaustive strata (committed; never written by a check)


def load_bitmap() -> dict:
    if not os.path.exists(KNOWN_BITMAP):
        return {}
    with open(KNOWN_BITMAP) as f:
        return json.load(f)


def bitmap_get(bm: dict, stratum: str, p: int, o: int, g: int) -> bool:
    import base64

    ent = bm.get("strata", {}).get(f"{stratum}/{p}/{o}")
    if ent is None:
        return False
    raw = bm.setdefault("_decoded", {}).get(f"{stratum}/{p}/{o}")
    if raw is None:
        import zlib

        raw = zlib.decompress(base64.b64decode(ent))
        bm["_decoded"][f"{stratum}/{p}/{o}"] = raw
    return bool(raw[g >> 3] >> (g & 7) & 1)


def shards(tier: str, seed: int) -> list[dict]:
    out = []
    for st in graphs.strata(tier):
        n = st["n"]
        total = graphs.count(n, st["max_edges"])
        n_orders = len(list(itertools.permutations(range(n))))
        for p in range(len(graphs.PROFILES)):
            for o in range(n_orders):
                # split big strata
                parts = 4 if total > 30000 else 1
                for part in range(parts):
                    out.append({"mode": "graphs", "stratum": st["name"], "p": p, "o": o, "part": part, "parts": parts})
    if tier == "thorough":
        st = EXTRA_STRATA[0]
        total = graphs.count(3, 2)
        sel = seed % 18
        p, o = sel // 6, sel % 6
        for part in range(64):
            out.append({"mode": "graphs", "stratum": st["name"], "p": p, "o": o, "part": part, "parts": 64, "sample_stride": 6})
    out.append({"mode": "chains"})
    n_h, per = (8, 400) if tier == "quick" else (32, 4000)
    out += [{"mode": "hyp", "seed": seed * 1000 + i, "n": per} for i in range(n_h)]
    return out


def _multigraph_strategy():
    from hypothesis import strategies as st

    names = ["A", "AItem", "B", "User", "UserGroup", "Children", "pet_owner", "Node"]

    @st.composite
    def spec(draw):
        n = draw(st.integers(1, 5))
        ns = draw(st.lists(st.sampled_from(names), min_size=n, max_size=n, unique=True))
        R = lambda: {"$ref": "#/components/schemas/" + draw(st.sampled_from(ns))}  # noqa: E731

        def node(d):
            k = draw(st.sampled_from(["ref", "ref", "str", "arr", "map", "obj", "oneof", "anyof", "allof", "enum", "arrobj"] if d > 0 else ["ref", "str"]))
            if k == "ref":
                return R()
            if k == "str":
                return {"type": draw(st.sampled_from(["string", "integer", "boolean"]))}
            if k == "arr":
                return {"type": "array", "items": node(d - 1)}
            if k == "map":
                return {"type": "object", "additionalProperties": node(d - 1)}
            if k == "obj":
                return {"type": "object", "properties": {pn: node(d - 1) for pn in draw(st.lists(st.sampled_from(["a", "b", "item", "children"]), max_size=3, unique=True))}}
            if k == "arrobj":
                return {"type": "array", "items": {"type": "object", "properties": {"x": node(d - 1)}}}
            if k in ("oneof", "anyof"):
                return {k[:3] + "Of": [node(d - 1) for _ in range(draw(st.integers(1, 3)))]}
            if k == "allof":
                return {"allOf": [R(), {"type": "object", "properties": {"own": node(d - 1)}}]}
            return {"type": "string", "enum": ["a", "b"]}

        out = {}
        for name in ns:
            top = draw(st.sampled_from(["obj", "obj", "obj", "alias", "arr", "union", "allof", "enum", "map"]))
            if top == "obj":
                out[name] = {"type": "object", "properties": {pn: node(2) for pn in draw(st.lists(st.sampled_from(["a", "b", "c", "item", "children", "parent"]), min_size=1, max_size=4, unique=True))}}
            elif top == "alias":
                out[name] = R()
            elif top == "arr":
                out[name] = {"type": "array", "items": node(1)}
            elif top == "union":
                out[name] = {draw(st.sampled_from(["oneOf", "anyOf"])): [node(1) for _ in range(draw(st.integers(1, 3)))]}
            elif top == "allof":
                out[name] = {"allOf": [R(), {"type": "object", "properties": {"own": node(1)}}]}
            elif top == "map":
                out[name] = {"type": "object", "additionalProperties": node(1)}
            else:
                out[name] = {"type": "string", "enum": ["x", "y"]}
        return out

    return spec()


def _raw_cyclic(schemas: dict) -> bool:
    from ..specgen import _refs_in

    graph = {n: [t for _, t in _refs_in(node) if t in schemas] for n, node in schemas.items()}
    color: dict = {}

    def dfs(u):
        color[u] = 1
        for v in graph[u]:
            if v != u and (color.get(v) == 1 or (color.get(v) is None and dfs(v))):
                return True
        color[u] = 2
        return False

    return any(color.get(n) is None and dfs(n) for n in graph)


def run_shard(shard: dict) -> dict:
    col = Collector()
    bm = load_bitmap()
    if shard["mode"] == "graphs":
        stname = shard["stratum"]
        st = next(s for s in graphs.strata("quick") + EXTRA_STRATA if s["name"] == stname)
        n = st["n"]
        opts = graphs.schema_options(n, st["max_edges"])
        total = len(opts) ** n
        order = list(itertools.permutations(range(n)))[shard["o"]]
        names = graphs.PROFILES[shard["p"]][:n]
        stride = shard.get("sample_stride", 1)
        ev = nt = known_fail = 0
        failing_now = 0
        for g in range(shard["part"], total, shard["parts"] * stride):
            graph = graphs.graph_at(n, st["max_edges"], g, opts)
            schemas = graphs.render(graph, names, order)
            t = graphparse.build(schemas, budget_for(schemas))
            viols = check_trace(t, schemas)
            ev += 1
            if graphs.has_cycle_len_ge2(graph):
                nt += 1
            if viols:
                failing_now += 1
                if bitmap_get(bm, stname, shard["p"], shard["o"], g):
                    known_fail += 1
                    col.extra.setdefault("known_failing_signatures", {})
                    for v in viols:
                        k = json.dumps(list(v.sig))
                        col.extra["known_failing_signatures"][k] = col.extra["known_failing_signatures"].get(k, 0) + 1
                    continue
                case = {"kind": "graph", "stratum": stname, "p": shard["p"], "o": shard["o"], "g": g}
                covered = f"{stname}/{shard['p']}/{shard['o']}" in bm.get("strata", {})
                for v in viols:
                    # inside a stratum whose failing set is recorded exactly, a failure outside that set is new by definition
                    sig = (("not_in_known_failing_set",) + tuple(v.sig)) if covered else v.sig
                    col.add_violation(Violation(sig, v.detail + f" schemas={json.dumps(schemas)[:700]}"), case)
        col.bulk(ev, nt, {f"stratum_{stname}": ev, "cyclic_len_ge2": nt}, sample={"kind": "graph", "stratum": stname, "p": shard["p"], "o": shard["o"], "g": shard["part"], "schemas": graphs.render(graphs.graph_at(n, st["max_edges"], total // 3, opts), names, order)} if shard["part"] == 0 else None)
        col.extra["known_failing_graphs_seen"] = known_fail
        col.extra["failing_graphs_now"] = failing_now
        if stride == 1:
            col.exhaustive = True
        return col.to_dict()
    if shard["mode"] == "chains":
        for limit in (5, 10, 50, 150):
            for kind in ("ref_chain", "array_chain", "inline_nesting", "backref_chain"):
                lengths = {max(1, limit // 3), max(1, limit - 2), limit - 1, limit, limit + 1, limit + 2, limit + 3, 2 * limit + 5, 420}
                if kind == "inline_nesting":
                    lengths = {l for l in lengths if l <= 150}  # deeper documents cannot be read by json/yaml loaders themselves
                for length in sorted(lengths):
                    case = {"kind": "chain", "chain": kind, "length": length, "limit": limit}
                    viols = evaluate(case)
                    col.record(case, viols, length > limit, [f"chain_{kind}", f"limit_{limit}", "over_limit" if length > limit else "within_limit"])
        return col.to_dict()
    from .. import hyp

    def body(schemas):
        case = {"kind": "raw", "schemas": schemas}
        col.record(case, evaluate(case), _raw_cyclic(schemas), ["multigraph", "multigraph_cyclic" if _raw_cyclic(schemas) else "multigraph_acyclic"])

    hyp.run_cases(_multigraph_strategy(), shard["n"], shard["seed"], body)
    return col.to_dict()


def evaluate_graph(graph, names, order) -> list[Violation]:
    schemas = graphs.render(graph, names, order)
    return check_trace(graphparse.build(schemas, budget_for(schemas)), schemas)
