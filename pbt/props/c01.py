"""C01 — every accepted spec yields a package that compiles and imports (inputs x configurations).

Oracle: if generate_client returns, (1) compile() of every emitted .py, (2) in a FRESH child interpreter whose meta path
blocks the generator and generator-only dependencies, import of every module found by pkgutil.walk_packages under the
output package and the core package, (3) every name in a generated __all__ resolves and `from pkg import *` works.
A raise from generate_client is a rejection, not a violation.
"""

from __future__ import annotations

import os
import re

from .. import genrun, hyp, specgen
from ..runner import Collector, Violation, load_known_findings

PROPERTY_ID = "C01"
LEVEL = "exploration"
RULE = (
    "case = (OpenAPI document constructed by pbt/specgen.py, output layout [package depth 1..3, embedded or shared core at "
    "depth 1..3], naming strategy, JSON/YAML). Features behind listed known findings are excluded by construction and "
    "counted. Non-trivial = at least one named schema that references another schema AND at least one operation with a "
    "parameter or body. distinct = distinct case JSON."
)
ASSUMPTIONS = [
    "a raise from generate_client (any exception) is a visible rejection and satisfies the property",
    "the project root is on sys.path of the importing interpreter (documented layout: generated code imports its core by absolute dotted name)",
    "the child interpreter has httpx, cattrs (+ their own dependencies) and the standard library; pyopenapi_gen, yaml, jsonschema, openapi_spec_validator, typer, click, black, dataclass_wizard ... are blocked at the meta path",
    "post-processing (ruff/black/mypy) is off: the raw emitter output is what is checked",
]
MIN_NONTRIVIAL = {"quick": 300, "thorough": 3000}


def role_of(module_or_path: str, res: genrun.GenResult | None = None) -> str:
    s = module_or_path.replace("/", ".")
    for r in ("models", "endpoints", "mocks"):
        if f".{r}." in s + "." or s.endswith("." + r):
            return r
    if ".core" in s or "corepkg" in s or "sharedcore" in s or s.endswith("core"):
        return "core"
    if s.endswith("client") or s.endswith("client.py"):
        return "client"
    return "init"


def normalise(msg: str) -> str:
    m = re.sub(r"g\d+_\d+", "PKG", msg)
    m = re.sub(r"\(/[^)]*\)", "(PATH)", m)
    m = re.sub(r"/[\w/.\-]+", "PATH", m)
    m = re.sub(r"'[^']*'", "'_'", m)
    m = re.sub(r'"[^"]*"', '"_"', m)
    m = re.sub(r"\d+", "N", m)
    return m[:110]


def nontrivial(case: dict) -> bool:
    spec = case["spec"]
    schemas = (spec.get("components") or {}).get("schemas") or {}
    has_ref_edge = any("$ref" in repr(v) for v in schemas.values())
    has_op = False
    for item in spec.get("paths", {}).values():
        for m, op in item.items():
            if m in specgen.METHODS and (op.get("parameters") or op.get("requestBody") or item.get("parameters")):
                has_op = True
    return has_ref_edge and has_op


def classes(case: dict) -> list[str]:
    spec, cfg = case["spec"], case["cfg"]
    r = repr(spec)
    labs = [f"out_depth_{cfg['out'].count('.') + 1}", "core_shared" if cfg.get("core") else "core_embedded", f"naming_{cfg['naming']}", f"fmt_{cfg['fmt']}"]
    for k in ("allOf", "oneOf", "anyOf", "discriminator", "additionalProperties", "enum", "nullable", "requestBody", "multipart/form-data",
              "text/event-stream", "application/octet-stream", "'in': 'header'", "'in': 'cookie'", "'in': 'path'", "default"):
        if k in r:
            labs.append("has_" + re.sub(r"\W+", "_", k).strip("_"))
    n_ops = sum(1 for item in spec.get("paths", {}).values() for m in item if m in specgen.METHODS)
    labs.append(f"ops_{min(n_ops, 4)}")
    return labs


_FRAME = re.compile(r'File "([^"]+)", line (\d+), in [^\n]*\n\s+([^\n]*)')


def _innermost(tb: str, root: str) -> tuple[str, str]:
    """(relative file, source line) of the innermost traceback frame that lies in the generated tree."""
    last = ("", "")
    for m in _FRAME.finditer(tb or ""):
        f = m.group(1)
        if f.startswith(root):
            last = (os.path.relpath(f, root), m.group(3).strip())
    return last


def _violations_from(res: genrun.GenResult, compile_errs, report) -> list[Violation]:
    viols = []
    seen = set()
    for rel, err in compile_errs:
        msg = err.split(" (line")[0]
        if "invalid syntax" in msg or "unterminated" in msg or "was never closed" in msg or "unexpected" in msg:
            # generic parser message: add the token skeleton of the offending line so that distinct root causes get distinct buckets
            line = err.split("): ", 1)[1] if "): " in err else ""
            msg += " @ " + re.sub(r"[A-Za-z_][A-Za-z0-9_]*", "N", line)[:60]
        m = re.search(r"duplicate argument '(\w+)'", msg)
        sig = ("compile", role_of(rel), normalise(msg)) + ((("arg_" + m.group(1)) if m.group(1) in ("self",) else "arg_param",) if m else ())
        if sig not in seen:
            seen.add(sig)
            viols.append(Violation(sig, f"{rel}: {err}"))
    bad_files = {rel for rel, _ in compile_errs}
    if report is not None:
        for e in report["errors"]:
            if e["stage"] == "import" and ("SyntaxError" in e["error"] or "IndentationError" in e["error"]) and bad_files:
                continue  # already reported by compile()
            if e["stage"] == "import":
                rel, line = _innermost(e.get("tb", ""), res.root)
                sig = ("import", role_of(rel or e["module"]), normalise(e["error"]))
                key = (sig, rel, line)
            else:
                sig = (e["stage"], role_of(e["module"]), normalise(e["error"]))
                key = (sig, e["module"], "")
            if key in seen or sig in seen:
                continue
            seen.add(key)
            seen.add(sig)
            viols.append(Violation(sig, f"{e['module']}: {e['error']}\n{e.get('tb','')[-700:]}"))
    return viols


def evaluate(case: dict) -> list[Violation]:
    res = genrun.generate({**case, "cfg": {**case["cfg"], "prefix": genrun.unique_prefix()}})
    try:
        if not res.ok:
            return []
        ce = genrun.compile_all(res)
        rep = genrun.child_import([{"root": res.root, "packages": genrun.top_packages(res), "star": True}])[0]
        return _violations_from(res, ce, rep)
    finally:
        genrun.cleanup(res)


valid_case = specgen.valid_case


def excluded_features() -> set[str]:
    # root causes listed under C03 (synthesised inline type names that collide / lose their prefix) can also surface as
    # import-time failures, so their triggers are excluded here as well
    from .. import domain

    return domain.excluded("C01", "C03")


def shards(tier: str, seed: int) -> list[dict]:
    n_sh, per = (16, 120) if tier == "quick" else (48, 700)
    return [{"seed": seed * 1000 + i, "n": per} for i in range(n_sh)]


BATCH = 12


def run_shard(shard: dict) -> dict:
    from .. import runner

    col = Collector()
    gate = specgen.Gate(excluded_features())
    cases = hyp.draw_cases(specgen.cases(gate), shard["n"], shard["seed"])
    col.excluded.update(gate.excluded)
    pending: list[tuple[dict, genrun.GenResult, list]] = []

    def flush():
        if not pending:
            return
        jobs = [{"root": r.root, "packages": genrun.top_packages(r), "star": True} for _, r, _ in pending]
        reports = genrun.child_import(jobs)
        for (case, res, ce), rep in zip(pending, reports):
            col.record(case, _violations_from(res, ce, rep), nontrivial(case), classes(case) + ["generated_ok"])
            genrun.cleanup(res)
        pending.clear()
        runner.truncate_generator_logs()

    for case in cases:
        res = genrun.generate({**case, "cfg": {**case["cfg"], "prefix": genrun.unique_prefix()}})
        if not res.ok:
            col.rejected += 1
            col.classes["rejected_" + (res.error_type or "?")] += 1
            col.extra.setdefault("rejection_samples", [])
            if len(col.extra["rejection_samples"]) < 3:
                col.extra["rejection_samples"].append((res.error or "")[:300])
            col.record(case, [], False, ["rejected"])
            genrun.cleanup(res)
            continue
        pending.append((case, res, genrun.compile_all(res)))
        if len(pending) >= BATCH:
            flush()
    flush()
    col.extra["gate_used"] = dict(gate.used)
    return col.to_dict()
