"""C04 — request fidelity: what the caller passes is what goes on the wire.

Case   : {"spec", "cfg", "calls": [{"method", "path", "params": {"<in>:<name>": JSON value}, "body": {"media", "doc"} | None}]}
         Every call assigns all required parameters and a chosen subset of the optional ones (unset ones are passed as None /
         left at their default).  Values are JSON-encodable in the case and converted to the annotated Python types (date,
         datetime, UUID, Enum member, model instance) by the harness.
Oracle : exactly one httpx.Request captured under the generated HttpxTransport; method; decoded url.path == template with
         str(value) substituted; decoded query multimap == expected (original names, httpx default encoding of the JSON-
         serialised value, repeated key for arrays); header parameters under original names; cookie parameters in `Cookie`;
         nothing present that was not supplied; body: declared media type and JSON equal to the argument's reference
         serialisation (null-valued members may be omitted), form/octet/multipart compared after decoding.
"""

from __future__ import annotations

import dataclasses
import datetime as _dt
import enum
import inspect
import json
import re
import typing
import uuid
from urllib.parse import parse_qsl, unquote

from .. import domain, drive, genrun, hyp, specgen
from ..refmodel import instances as I
from ..runner import Collector, Violation

PROPERTY_ID = "C04"
LEVEL = "exploration"
RULE = (
    "case = (constructed document, layout, for every operation up to 6 argument assignments: all required parameters + a "
    "subset of the optional ones [every subset when <= 3 optional], values by parameter schema [string incl. non-ASCII / "
    "reserved characters, integer, number, boolean, enum, date, date-time, uuid, arrays], a conforming body for the declared "
    "media type). Non-trivial = the operation has >= 2 parameter locations or a body, and the assignment sets >= 1 and leaves "
    ">= 1 optional argument unset. distinct = distinct (operation, assignment)."
)
ASSUMPTIONS = [
    "query/header values are compared after httpx's own percent-/form-encoding is decoded (README: 'httpx defaults, not style/explode')",
    "path values are restricted to characters for which literal and percent-encoded substitution coincide after decoding (no '/', '?', '#', '%')",
    "a Python argument is matched to a spec parameter by case-/punctuation-insensitive name comparison, not by the generator's exact rule",
    "null-valued members of a JSON body may be omitted on the wire (serialiser strips None); multipart: only 'the files are sent' is asserted",
]
MIN_NONTRIVIAL = {"quick": 300, "thorough": 5000}


def valid_case(case: dict) -> bool:
    if not specgen.valid_case(case):
        return False
    ops = {(o["method"], o["path"]): o for o in drive.spec_operations(case["spec"])}
    schemas = (case["spec"].get("components") or {}).get("schemas") or {}
    for c in case.get("calls") or []:
        o = ops.get((c.get("method"), c.get("path")))
        if o is None:
            return False
        declared = {f"{p['in']}:{p['name']}": p for p in o["params"]}
        for k, v in (c.get("params") or {}).items():
            if k not in declared or not I.conforms(v, declared[k].get("schema", {}), schemas) or v is None:
                return False
        for k, p in declared.items():
            if (p.get("required") or p["in"] == "path") and k not in (c.get("params") or {}):
                return False
        b = c.get("body")
        rb = o["op"].get("requestBody")
        if b is not None:
            if not rb or b.get("media") not in (rb.get("content") or {}):
                return False
            sch = rb["content"][b["media"]].get("schema", {})
            if b["media"] == "application/json" and not I.conforms(b.get("doc"), sch, schemas):
                return False
    return True


def _norm(n: str) -> str:
    return re.sub(r"[^0-9a-z]", "", n.lower())


def to_python(value, schema: dict, annotation, schemas: dict):
    """JSON case value -> the Python value a caller would pass for this annotation."""
    n = I.resolve(schema, schemas)
    if isinstance(value, list):
        item_ann = None
        for a in typing.get_args(annotation) or ():
            if typing.get_origin(a) in (list, typing.List):
                item_ann = (typing.get_args(a) or (None,))[0]
        if typing.get_origin(annotation) in (list, typing.List):
            item_ann = (typing.get_args(annotation) or (None,))[0]
        out, memo = [], {}
        for v in value:  # equal elements become ONE Python object: callers legitimately pass the same instance twice
            k = json.dumps(v, sort_keys=True)
            if k not in memo:
                memo[k] = to_python(v, n.get("items", {}), item_ann, schemas)
            out.append(memo[k])
        return out
    fmt = n.get("format")
    cands = [annotation] + [a for a in (typing.get_args(annotation) or ()) if a is not type(None)]
    for a in cands:
        if isinstance(a, type) and issubclass(a, enum.Enum):
            try:
                return a(value)
            except Exception:
                pass
    if isinstance(value, str):
        if fmt == "date" and any(a is _dt.date for a in cands):
            return _dt.date.fromisoformat(value)
        if fmt == "date-time" and any(a is _dt.datetime for a in cands):
            return _dt.datetime.fromisoformat(value.replace("Z", "+00:00"))
        if fmt == "uuid" and any(a is uuid.UUID for a in cands):
            return uuid.UUID(value)
    return value


def wire_text(value) -> str:
    """How httpx renders a scalar query/form value: str() of the JSON-level value, booleans lower-cased."""
    if isinstance(value, bool):
        return "true" if value else "false"
    if isinstance(value, float) and value == int(value) and abs(value) < 1e15:
        return str(value)
    return str(value)


def _param_arg(sig: inspect.Signature, p: dict) -> str | None:
    want = _norm(p["name"])
    hits = [n for n in sig.parameters if _norm(n) == want]
    if len(hits) == 1:
        return hits[0]
    if len(hits) > 1:
        exact = [n for n in hits if n.rstrip("_") == p["name"]]
        return exact[0] if exact else hits[0]
    return None


def assignments(sig: inspect.Signature, params: list[dict], limit: int = 12) -> list[dict]:
    """All plausible maps {location:name -> argument}.  A parameter whose normalised name is unique maps to the argument with that
    normalised name.  Parameters that share a normalised name (same name in two locations, user-id / user_id) compete for the
    arguments whose name, with or without a numeric de-collision suffix, normalises to it; every injective assignment is returned
    and the caller accepts the call if SOME assignment puts every value on the wire under its own name and location (the property
    does not say which argument belongs to which of two same-named parameters)."""
    import itertools

    groups: dict[str, list[dict]] = {}
    for p in params:
        groups.setdefault(_norm(p["name"]), []).append(p)
    fixed: dict[str, str | None] = {}
    open_groups = []
    for w, ps in groups.items():
        if len(ps) == 1:
            fixed[f"{ps[0]['in']}:{ps[0]['name']}"] = _param_arg(sig, ps[0])
        else:
            args = [n for n in sig.parameters if _norm(n) == w or _norm(re.sub(r"_\d+$", "", n)) == w]
            open_groups.append((ps, args))
    outs = [dict(fixed)]
    for ps, args in open_groups:
        nxt = []
        keys = [f"{p['in']}:{p['name']}" for p in ps]
        pads = args + [None] * max(0, len(ps) - len(args))
        for perm in itertools.permutations(pads, len(ps)):
            for base in outs:
                nxt.append({**base, **dict(zip(keys, perm))})
                if len(nxt) >= limit:
                    break
            if len(nxt) >= limit:
                break
        outs = nxt or outs
    return outs


def check(res: genrun.GenResult, case: dict) -> tuple[list[Violation], list[tuple[dict, bool]]]:
    import httpx

    spec = case["spec"]
    schemas = (spec.get("components") or {}).get("schemas") or {}
    viols: list[Violation] = []
    accounted: list[tuple[dict, bool]] = []
    ops = {(o["method"], o["path"]): o for o in drive.spec_operations(spec)}
    with drive.Session(res, spec, transport="bundled") as s:
        found, problems = s.discover()
        s.responder = lambda request: httpx.Response(204)
        for call in case["calls"]:
            o = ops[(call["method"], call["path"])]
            where = found.get((call["method"], call["path"]))
            if not where:
                continue  # C07 decides reachability
            attr, mname = where[0]
            fn = s.methods(s.tag_clients()[attr])[mname]
            sig = inspect.signature(fn)
            try:
                hints = typing.get_type_hints(getattr(fn, "__func__", fn))
            except Exception:
                hints = {}
            best: list[Violation] | None = None
            record = None
            for assign in assignments(sig, o["params"]):
                v_try, rec = _attempt(s, fn, sig, hints, o, call, assign, schemas)
                record = record or rec
                if best is None or len(v_try) < len(best):
                    best = v_try
                if not v_try:
                    break
            if record is not None:
                accounted.append(record)
            viols.extend(best or [])
    return viols, accounted


def _attempt(s, fn, sig, hints, o, call, assign, schemas):
    viols: list[Violation] = []
    if True:
        if True:
            kwargs = {}
            supplied: dict[str, tuple[dict, object]] = {}
            skip = False
            for p in o["params"]:
                key = f"{p['in']}:{p['name']}"
                arg = assign.get(key)
                if arg is None:
                    if key in call["params"]:
                        viols.append(Violation(("parameter_cannot_be_supplied", p["in"]), f"{call['method']} {call['path']}: {key} has no argument in {sig}"))
                        skip = True
                    continue
                if key in call["params"]:
                    pv = to_python(call["params"][key], p.get("schema", {}), hints.get(arg), schemas)
                    kwargs[arg] = pv
                    supplied[key] = (p, call["params"][key])
                elif sig.parameters[arg].default is inspect.Parameter.empty:
                    kwargs[arg] = None  # optional in the spec but positional in the signature
            if skip:
                return viols, None
            body = call.get("body")
            body_arg = None
            if body is not None:
                media = body["media"]
                cand = {"application/json": ["body"], "application/x-www-form-urlencoded": ["form_data", "body"], "multipart/form-data": ["files", "body"],
                        "application/octet-stream": ["bytes_content", "body"], "text/plain": ["body", "text_content", "bytes_content"]}.get(media, ["body"])
                body_arg = next((c for c in cand if c in sig.parameters), None)
                if body_arg is None:
                    viols.append(Violation(("body_cannot_be_supplied", media), f"{call['method']} {call['path']}: no body argument in {sig}"))
                    return viols, None
                if media == "application/json":
                    ann = hints.get(body_arg)
                    try:
                        kwargs[body_arg] = _body_value(body["doc"], ann, s)
                    except Exception as e:
                        return viols, None  # cannot build the argument with the package's own converter: C03's business
                elif media == "application/x-www-form-urlencoded":
                    kwargs[body_arg] = dict(body["doc"])
                elif media == "multipart/form-data":
                    import io

                    kwargs[body_arg] = {k: io.BytesIO(v.encode()) for k, v in body["doc"].items()}
                else:
                    kwargs[body_arg] = body["doc"].encode() if isinstance(body["doc"], str) else body["doc"]
                if "content_type" in sig.parameters:
                    kwargs["content_type"] = media
            n_opt = sum(1 for p in o["params"] if not (p.get("required") or p["in"] == "path"))
            n_set_opt = sum(1 for k, (p, _) in supplied.items() if not (p.get("required") or p["in"] == "path"))
            locs = {p["in"] for p in o["params"]}
            nontriv = (len(locs) >= 2 or body is not None) and n_set_opt >= 1 and n_set_opt < n_opt
            record = ({"method": call["method"], "path": call["path"], "params": call["params"], "body": body}, nontriv)
            out = s.call(fn, kwargs)
            loc_sig = "+".join(sorted(locs)) or "none"
            if len(out.requests) != 1:
                et = type(out.exc).__name__ if out.exc else "none"
                culprit = _culprit(out.exc, supplied, body)
                viols.append(Violation(("no_single_request", str(len(out.requests)), et, culprit), f"{call['method']} {call['path']} kwargs={_short(kwargs)}: {out.exc!r}"[:700]))
                return viols, record
            req = out.requests[0]
            viols.extend(_compare(req, o, call, supplied, body, schemas))
    return viols, record


def _short(kw) -> str:
    return repr(kw)[:300]


def _culprit(exc, supplied, body) -> str:
    msg = str(exc)
    if "Header value" in msg:
        return "header_value_type"
    if body is not None and ("json" in msg.lower() or "serial" in msg.lower()):
        return "body"
    return "other"


def _body_value(doc, ann, s: drive.Session):
    args = [a for a in (typing.get_args(ann) or ()) if a is not type(None)]
    tp = ann
    if typing.get_origin(ann) is typing.Union or str(typing.get_origin(ann)) == "<class 'types.UnionType'>":
        tp = args[0] if args else ann
    needs = dataclasses.is_dataclass(tp) or any(dataclasses.is_dataclass(a) for a in (typing.get_args(tp) or ()))
    if needs:
        val = s.conv_mod.structure_from_dict(doc, tp)
        if isinstance(val, list) and isinstance(doc, list):
            memo = {}
            for i, d in enumerate(doc):  # equal documents -> the same model instance (aliasing inside the argument)
                k = json.dumps(d, sort_keys=True)
                if k in memo:
                    val[i] = memo[k]
                else:
                    memo[k] = val[i]
        return val
    return doc


def _strip_nulls(x):
    if isinstance(x, dict):
        return {k: _strip_nulls(v) for k, v in x.items() if v is not None}
    if isinstance(x, list):
        return [_strip_nulls(v) for v in x]
    return x


def _compare(req, o: dict, call: dict, supplied: dict, body, schemas: dict) -> list[Violation]:
    viols = []
    if req.method != o["method"]:
        viols.append(Violation(("wrong_http_method",), f"{req.method} != {o['method']}"))
    # path
    exp_path = o["path"]
    for key, (p, v) in supplied.items():
        if p["in"] == "path":
            exp_path = exp_path.replace("{" + p["name"] + "}", wire_text(v))
    got_path = unquote(req.url.path)
    if got_path.rstrip("/") != exp_path.rstrip("/"):
        kinds = sorted({I.describe(p.get("schema", {}), {}) for k, (p, v) in supplied.items() if p["in"] == "path"})
        viols.append(Violation(("path_mismatch", ",".join(kinds)), f"{call['method']} {o['path']}: expected {exp_path!r} got {got_path!r}"))
    # query
    exp_q = []
    for key, (p, v) in supplied.items():
        if p["in"] == "query":
            for item in (v if isinstance(v, list) else [v]):
                exp_q.append((p["name"], wire_text(item)))
    got_q = parse_qsl(req.url.query.decode(), keep_blank_values=True)
    if sorted(got_q) != sorted(exp_q):
        missing = [q for q in exp_q if q not in got_q]
        extra = [q for q in got_q if q not in exp_q]
        names_missing = {n for n, _ in missing} - {n for n, _ in extra}
        if names_missing:
            kind = "query_param_dropped"
        elif extra and not missing:
            kind = "query_param_unsupplied_present"
        else:
            kind = "query_value_mismatch"
        culprits = sorted({I.describe(p.get("schema", {}), {}) for k, (p, v) in supplied.items() if p["in"] == "query" and (p["name"] in {n for n, _ in missing})})
        multi = "multi_content" if len((o["op"].get("requestBody") or {}).get("content", {})) > 1 else "single"
        viols.append(Violation((kind, ",".join(culprits)[:60], multi), f"{call['method']} {o['path']}: expected {exp_q} got {got_q}"))
    # headers
    for key, (p, v) in supplied.items():
        if p["in"] == "header":
            got = req.headers.get_list(p["name"], split_commas=False)
            want = wire_text(v) if not isinstance(v, list) else ",".join(wire_text(i) for i in v)
            if got != [want]:
                multi = "multi_content" if len((o["op"].get("requestBody") or {}).get("content", {})) > 1 else "single"
                viols.append(Violation(("header_param_mismatch", I.describe(p.get("schema", {}), {}), multi), f"{p['name']}: expected {[want]} got {got}"))
    for p in o["params"]:
        key = f"{p['in']}:{p['name']}"
        if p["in"] == "header" and key not in supplied and p["name"].lower() not in ("accept", "content-type", "user-agent", "authorization") and req.headers.get(p["name"]) is not None:
            viols.append(Violation(("header_param_unsupplied_present",), f"{p['name']}={req.headers.get(p['name'])!r}"))
    # cookies
    cookie_hdr = "; ".join(req.headers.get_list("cookie", split_commas=False))
    got_c = dict(part.strip().split("=", 1) for part in cookie_hdr.split(";") if "=" in part)
    for key, (p, v) in supplied.items():
        if p["in"] == "cookie" and unquote(got_c.get(p["name"], "\x00")) != wire_text(v):
            viols.append(Violation(("cookie_param_dropped",), f"{p['name']}: expected {wire_text(v)!r}, Cookie header {cookie_hdr!r}"))
    # nothing the caller did not supply: neither a declared cookie parameter left unset nor a cookie of an EARLIER call on this client
    supplied_cookie_names = {p["name"] for key, (p, v) in supplied.items() if p["in"] == "cookie"}
    stray = sorted(n for n in got_c if n not in supplied_cookie_names)
    if stray:
        viols.append(Violation(("cookie_unsupplied_present",), f"{call['method']} {o['path']}: Cookie header {cookie_hdr!r} carries {stray} although only {sorted(supplied_cookie_names)} were supplied"))
    # body
    if body is not None:
        media = body["media"]
        ctype = req.headers.get("content-type", "")
        if media == "application/json":
            try:
                got = json.loads(req.content.decode() or "null")
            except Exception:
                got = "<not json>"
            if not ctype.startswith("application/json"):
                viols.append(Violation(("body_content_type", media), f"content-type {ctype!r}"))
            elif _strip_nulls(got) != _strip_nulls(body["doc"]) and I.diff(_strip_nulls(body["doc"]), _strip_nulls(got), (o["op"]["requestBody"]["content"][media].get("schema", {})), schemas) is not None:
                # second opinion with the schema-aware relation (date-times as instants, floats by value)
                viols.append(Violation(("json_body_mismatch",), f"expected {json.dumps(body['doc'])[:300]} got {json.dumps(got)[:300]}"))
        elif media == "application/x-www-form-urlencoded":
            if not ctype.startswith("application/x-www-form-urlencoded"):
                viols.append(Violation(("body_content_type", media), f"content-type {ctype!r}"))
            elif sorted(parse_qsl(req.content.decode(), keep_blank_values=True)) != sorted((k, wire_text(v)) for k, v in body["doc"].items()):
                viols.append(Violation(("form_body_mismatch",), f"{req.content[:200]!r}"))
        elif media == "multipart/form-data":
            if not ctype.startswith("multipart/form-data") or not all(v.encode() in req.content for v in body["doc"].values()):
                viols.append(Violation(("multipart_body_not_sent",), f"content-type {ctype!r} content={req.content[:120]!r}"))
        else:
            want = body["doc"].encode() if isinstance(body["doc"], str) else body["doc"]
            if req.content != want:
                viols.append(Violation(("raw_body_mismatch", media), f"{req.content[:100]!r} != {want[:100]!r}"))
            elif ctype.split(";")[0].strip() != media:
                viols.append(Violation(("body_content_type", media), f"content-type {ctype!r}"))
    elif req.content not in (b"", b"null") and o["op"].get("requestBody") is None:
        viols.append(Violation(("unexpected_body",), f"{req.content[:100]!r}"))
    return viols


# ---------------------------------------------------------------------------------------------
# strategies


def case_strategy(gate: specgen.Gate):
    from hypothesis import strategies as st

    QTEXT = st.one_of(st.sampled_from(["a", "hello world", "é", "x&y=z", "a/b", "50%", "漢", "q?#", "1", "true", "a+b"]),
                      st.text(st.characters(min_codepoint=32, max_codepoint=126), min_size=1, max_size=6))
    HTEXT = st.text("abcdefghijklmnopqrstuvwxyzABCXYZ0123456789-_.~ ;=", min_size=1, max_size=8).map(str.strip).filter(bool)
    PTEXT = st.one_of(st.sampled_from(["abc", "a b", "é", "x.y", "a-b_c~", "007"]), st.text("abcdefghijklmnopqrstuvwxyz0123456789-._~", min_size=1, max_size=6).filter(lambda v: v.strip(".") != ""))  # '.'/'..' are dot segments

    def value_for(schema: dict, loc: str, schemas: dict):
        n = I.resolve(schema, schemas)
        t = n.get("type")
        if "enum" in n:
            return st.sampled_from(n["enum"])
        if t == "array":
            return st.lists(value_for(n.get("items", {}), loc, schemas), min_size=1, max_size=3).flatmap(
                lambda xs: st.sampled_from([xs, xs + [xs[0]], [xs[0]] + xs]))  # repeated elements are common in real calls
        if t == "integer":
            return st.integers(-1000, 10**12)
        if t == "number":
            return st.sampled_from([0.5, 1.5, -2.25, 3.0, 1e3])
        if t == "boolean":
            return st.booleans()
        fmt = n.get("format")
        if fmt == "date":
            return st.dates(min_value=_dt.date(1990, 1, 1), max_value=_dt.date(2100, 1, 1)).map(lambda d: d.isoformat())
        if fmt == "date-time":
            return st.datetimes(min_value=_dt.datetime(1990, 1, 1), max_value=_dt.datetime(2100, 1, 1)).map(lambda d: d.replace(microsecond=0).isoformat() + "+00:00")
        if fmt == "uuid":
            return st.uuids().map(str)
        return {"path": PTEXT, "header": HTEXT, "cookie": st.text("abcdefghijklmnopqrstuvwxyz0123456789", min_size=1, max_size=8)}.get(loc, QTEXT)

    @st.composite
    def cases(draw):
        spec = draw(specgen.specs(gate, max_schemas=3, max_ops=3, min_ops=1))
        cfg = draw(specgen.configs(gate))
        schemas = (spec.get("components") or {}).get("schemas") or {}
        calls = []
        for o in drive.spec_operations(spec):
            req = [p for p in o["params"] if p.get("required") or p["in"] == "path"]
            opt = [p for p in o["params"] if not (p.get("required") or p["in"] == "path")]
            if len(opt) <= 3:
                subsets = [[p for i, p in enumerate(opt) if mask >> i & 1] for mask in range(1 << len(opt))]
            else:
                subsets = [draw(st.lists(st.sampled_from(opt), unique_by=lambda p: (p["in"], p["name"]), max_size=len(opt))) for _ in range(6)]
            subsets = draw(st.permutations(subsets))[:6]
            rb = o["op"].get("requestBody")
            for sub in subsets:
                params = {}
                for p in req + list(sub):
                    params[f"{p['in']}:{p['name']}"] = draw(value_for(p.get("schema", {}), p["in"], schemas))
                body = None
                if rb and (rb.get("required") or draw(st.booleans())):
                    media = draw(st.sampled_from(sorted(rb["content"].keys())))
                    sch = rb["content"][media].get("schema", {})
                    if media == "application/json":
                        if not I.satisfiable(sch, schemas):
                            continue
                        doc = draw(I.instances(sch, schemas).filter(lambda d: d is not None and I.conforms(d, sch, schemas)))
                        if isinstance(doc, list) and doc and draw(st.booleans()):
                            doc = doc + [doc[0]]
                    elif media == "application/x-www-form-urlencoded":
                        doc = {"a": draw(QTEXT), "b": draw(st.integers(0, 99))}
                    elif media == "multipart/form-data":
                        doc = {"file": draw(st.text("abcdefghij", min_size=1, max_size=12))}
                    else:
                        doc = draw(st.text("abcdef\n 123", min_size=1, max_size=20))
                    body = {"media": media, "doc": doc}
                calls.append({"method": o["method"], "path": o["path"], "params": params, "body": body})
        return {"spec": spec, "cfg": cfg, "calls": calls}

    return cases()


def evaluate(case: dict) -> list[Violation]:
    res = genrun.generate({**case, "cfg": {**case["cfg"], "prefix": genrun.unique_prefix()}})
    try:
        if not res.ok or genrun.compile_all(res):
            return []
        try:
            return check(res, case)[0]
        except (ImportError, SyntaxError, NameError):
            return []
    finally:
        genrun.cleanup(res)


def shards(tier: str, seed: int) -> list[dict]:
    n_sh, per = (16, 70) if tier == "quick" else (48, 800)
    return [{"seed": seed * 1000 + i, "n": per} for i in range(n_sh)]


def run_shard(shard: dict) -> dict:
    from .. import runner

    col = Collector()
    gate = specgen.Gate(domain.excluded("C01", "C03", "C04", "C07", extra={"default_value", "union", "disc_union", "inline_union"}))  # unions: C14
    cases = hyp.draw_cases(case_strategy(gate), shard["n"], shard["seed"])
    col.excluded.update(gate.excluded)
    for i, case in enumerate(cases):
        res = genrun.generate({**case, "cfg": {**case["cfg"], "prefix": genrun.unique_prefix()}})
        try:
            if not res.ok:
                col.rejected += 1
                continue
            if genrun.compile_all(res):
                col.classes["skipped_c01_compile"] += 1
                continue
            try:
                viols, accounted = check(res, case)
            except (ImportError, SyntaxError, NameError):
                col.classes["skipped_c01_import"] += 1
                continue
            for acc, nt in accounted:
                locs = sorted({k.split(":")[0] for k in acc["params"]})
                col.record(acc, [], nt, ["loc_" + l for l in locs] + (["body_" + acc["body"]["media"]] if acc["body"] else []))
            for v in viols:
                col.add_violation(v, case)
        finally:
            genrun.cleanup(res)
        if i % 40 == 0:
            runner.truncate_generator_logs()
    return col.to_dict()
