"""C02 — schema-to-model structure fidelity (no silently lost fields).

(a) IR level, exhaustive small scope: every graph of pbt/graphs.py (N=2 with <=2 edges, N=3 with <=1 edge) x all
    declaration orders x 3 name profiles -> load_ir_from_spec -> for every named schema: property key set (own +
    inherited through allOf), required set and coarse structural kind of every property, compared with the independent
    reference resolver graphs.expected_shape.  Known-failing graphs (reference cycles) are identified EXACTLY by
    known/C02_bitmap.json.
(b) emitted models: Hypothesis specs (cycle-free domain of C01) through generate_client -> imported dataclasses:
    exactly one model per named schema, one field per declared/inherited property bound to the original JSON key
    (Meta.key_transform_with_load), required <=> no default, coarse kind of the annotation.
"""

from __future__ import annotations

import itertools
import json
import os

from .. import graphparse, graphs
from ..runner import Collector, Violation

PROPERTY_ID = "C02"
LEVEL = "exploration"
RULE = (
    "(a) case = (stratum, name profile, declaration order, graph index) of the exhaustive graph families [edge kinds $ref, "
    "array of $ref, inline object, array of inline object, additionalProperties, oneOf, anyOf, allOf parent; all cyclic "
    "configurations; names that are prefixes of one another]; distinct by construction; non-trivial = the graph has a cycle "
    "or an allOf edge. (b) case = constructed OpenAPI document run through generate_client; non-trivial = a schema with an "
    "allOf parent or >= 2 reference edges."
)
ASSUMPTIONS = [
    "kind comparison is coarse (scalar / ref:T / array-of / map-of / inline object / union) and accepts promotion of inline objects to named models",
    "property keys are unique across the schemas of one graph, so allOf merging never has to resolve an override",
    "(b) is evaluated only on packages that import (C01 domain)",
]
MIN_NONTRIVIAL = {"quick": 50000, "thorough": 50000}
KNOWN_BITMAP = os.path.join(os.path.dirname(os.path.dirname(os.path.dirname(os.path.abspath(__file__)))), "known", "C02_bitmap.json")

BASIC = {"object", "array", "string", "integer", "number", "boolean", "null", None}


def _kind(node, schemas: dict, declared: set[str], depth: int = 0) -> str:
    """Coarse structural kind of an IR node."""
    if node is None or depth > 6:
        return "?"
    t = node.type
    if t not in BASIC and t in schemas:  # reference by name to a promoted/named schema
        tgt = schemas[t]
        if t in declared:
            return f"ref:{t}"
        return _kind(tgt, schemas, declared, depth + 1)
    if node.one_of or node.any_of:
        members = sorted(_kind(m, schemas, declared, depth + 1) for m in (node.one_of or node.any_of))
        return "union(" + ",".join(members) + ")"
    if node.name in declared and (t == "object" or t is None) and not (node.type == "array"):
        if node.name and (node.properties or node._is_circular_ref or node._from_unresolved_ref or node._is_self_referential_stub or node.all_of or True):
            # a node carrying a declared schema's name stands for a reference to it (full schema or placeholder)
            if depth > 0 or True:
                return f"ref:{node.name}"
    if t == "array":
        return "arr(" + _kind(node.items, schemas, declared, depth + 1) + ")"
    if t == "object" or (t is None and (node.properties or node.additional_properties)):
        if node.additional_properties is not None and not isinstance(node.additional_properties, bool) and not node.properties:
            return "map(" + _kind(node.additional_properties, schemas, declared, depth + 1) + ")"
        if node.properties:
            return "inl{" + ",".join(f"{k}:{_kind(v, schemas, declared, depth + 1)}" for k, v in sorted(node.properties.items())) + "}"
        return "object"
    if t in ("string", "integer", "number", "boolean"):
        return t
    return str(t)


def expected_kind(k: str, tname: str) -> str:
    return {
        "scalar": "string",
        "oscalar": "integer",
        "ref": f"ref:{tname}",
        "arr": f"arr(ref:{tname})",
        "inl": "inl{x:ref:" + tname + "}",
        "arrinl": "arr(inl{x:ref:" + tname + "})",
        "map": f"map(ref:{tname})",
        "oneof": "union(" + ",".join(sorted([f"ref:{tname}", "string"])) + ")",
        "anyof": "union(" + ",".join(sorted([f"ref:{tname}", "integer"])) + ")",
    }[k]


def evaluate_graph(graph, names, order) -> list[Violation]:
    from pyopenapi_gen.core.utils import NameSanitizer

    schemas = graphs.render(graph, names, order)
    spec = {"openapi": "3.0.3", "info": {"title": "t", "version": "1"}, "paths": {}, "components": {"schemas": schemas}}
    try:
        ir = graphparse.load_ir(spec)
    except RecursionError as e:
        return [Violation(("ir", "recursion_error"), repr(e)[:200])]
    except Exception as e:
        return [Violation(("ir", "load_raised", type(e).__name__), str(e)[:200])]
    declared = {NameSanitizer.sanitize_class_name(n) for n in names}
    viols: list[Violation] = []
    cyc = "cyclic" if graphs.is_cyclic(graph) else "acyclic"
    for i, name in enumerate(names):
        key = NameSanitizer.sanitize_class_name(name)
        node = ir.schemas.get(key) or ir.schemas.get(name)
        if node is None:
            viols.append(Violation(("ir", "schema_missing", cyc), f"{name} not in IRSpec.schemas {sorted(ir.schemas)}"))
            continue
        exp_props, exp_req = graphs.expected_shape(graph, i)
        got_keys = set((node.properties or {}).keys())
        if got_keys != set(exp_props):
            missing, extra = sorted(set(exp_props) - got_keys), sorted(got_keys - set(exp_props))
            viols.append(Violation(("ir", "missing_property" if missing else "extra_property", cyc), f"{name}: missing={missing} extra={extra}"))
            continue
        if set(node.required or []) != exp_req:
            viols.append(Violation(("ir", "required_mismatch", cyc), f"{name}: required={sorted(node.required or [])} expected={sorted(exp_req)}"))
        for pk, (k, t) in exp_props.items():
            want = expected_kind(k, NameSanitizer.sanitize_class_name(names[t]) if t is not None else "")
            got = _kind(node.properties[pk], ir.schemas, declared)
            if got != want:
                viols.append(Violation(("ir", "kind_mismatch", k, cyc), f"{name}.{pk}: got {got} want {want}"))
                break
    # exactly one model per named schema: no second entry such as 'A2' / 'AB2' carrying a declared schema's content
    for k in ir.schemas:
        base = k.rstrip("0123456789")
        if base != k and base in declared and k not in declared:
            viols.append(Violation(("ir", "duplicate_model_for_schema", cyc), f"{k} next to {base}"))
            break
    return viols


def load_bitmap() -> dict:
    if not os.path.exists(KNOWN_BITMAP):
        return {}
    with open(KNOWN_BITMAP) as f:
        return json.load(f)


def _case_graph(case: dict):
    st = next(s for s in graphs.strata("quick") + EXTRA_STRATA if s["name"] == case["stratum"])
    n = st["n"]
    g = graphs.graph_at(n, st["max_edges"], case["g"])
    order = list(itertools.permutations(range(n)))[case["o"]]
    return g, graphs.PROFILES[case["p"]][:n], order


EXTRA_STRATA = [{"name": "n3e2", "n": 3, "max_edges": 2}]


def evaluate(case: dict) -> list[Violation]:
    if case.get("part") == "b":
        from . import c02b

        return c02b.evaluate(case)
    from .c08 import bitmap_get

    g, names, order = _case_graph(case)
    v = evaluate_graph(g, names, order)
    bm = load_bitmap()
    if v and f"{case['stratum']}/{case['p']}/{case['o']}" in bm.get("strata", {}) and not bitmap_get(bm, case["stratum"], case["p"], case["o"], case["g"]):
        return [Violation(("not_in_known_failing_set",) + tuple(x.sig), x.detail) for x in v]
    return v


def shards(tier: str, seed: int) -> list[dict]:
    out = []
    for st in graphs.strata(tier):
        n = st["n"]
        total = graphs.count(n, st["max_edges"])
        n_orders = len(list(itertools.permutations(range(n))))
        for p in range(len(graphs.PROFILES)):
            for o in range(n_orders):
                parts = 6 if total > 30000 else 2
                for part in range(parts):
                    out.append({"mode": "graphs", "stratum": st["name"], "p": p, "o": o, "part": part, "parts": parts})
    if tier == "thorough":
        sel = seed % 18
        for part in range(64):
            out.append({"mode": "graphs", "stratum": "n3e2", "p": sel // 6, "o": sel % 6, "part": part, "parts": 64, "sample_stride": 60})
    from . import c02b

    out += c02b.shards(tier, seed)
    return out


def run_shard(shard: dict) -> dict:
    if shard["mode"].startswith("b_"):
        from . import c02b

        return c02b.run_shard(shard)
    from .c08 import bitmap_get

    col = Collector()
    bm = load_bitmap()
    stname = shard["stratum"]
    st = next(s for s in graphs.strata("quick") + EXTRA_STRATA if s["name"] == stname)
    n = st["n"]
    opts = graphs.schema_options(n, st["max_edges"])
    total = len(opts) ** n
    order = list(itertools.permutations(range(n)))[shard["o"]]
    names = graphs.PROFILES[shard["p"]][:n]
    stride = shard.get("sample_stride", 1)
    covered = f"{stname}/{shard['p']}/{shard['o']}" in bm.get("strata", {})
    ev = nt = known_fail = failing = 0
    for g in range(shard["part"], total, shard["parts"] * stride):
        graph = graphs.graph_at(n, st["max_edges"], g, opts)
        viols = evaluate_graph(graph, names, order)
        ev += 1
        if graphs.is_cyclic(graph) or any(k in ("allof", "allofreq") for es in graph for (k, _) in es):
            nt += 1
        if viols:
            failing += 1
            if covered and bitmap_get(bm, stname, shard["p"], shard["o"], g):
                known_fail += 1
                continue
            case = {"stratum": stname, "p": shard["p"], "o": shard["o"], "g": g}
            for v in viols:
                sig = (("not_in_known_failing_set",) + tuple(v.sig)) if covered else v.sig
                col.add_violation(Violation(sig, v.detail + f" schemas={json.dumps(graphs.render(graph, names, order))[:600]}"), case)
    sample = None
    if shard["part"] == 0:
        gi = total // 3
        sample = {"stratum": stname, "p": shard["p"], "o": shard["o"], "g": gi, "schemas": graphs.render(graphs.graph_at(n, st["max_edges"], gi, opts), names, order)}
    col.bulk(ev, nt, {f"stratum_{stname}": ev}, sample=sample)
    col.extra["known_failing_graphs_seen"] = known_fail
    col.extra["failing_graphs_now"] = failing
    if stride == 1:
        col.exhaustive = True
    return col.to_dict()
