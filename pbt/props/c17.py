"""C17 — transport applies defaults, per-request headers and auth as documented (configurations x inputs).

Domain : HttpxTransport (the working tree's runtime module, byte-identical in every client per C12) over
         httpx.MockTransport x default headers x per-request headers (overlapping / disjoint / case variants) x
         auth in {None, bearer_token argument, one plugin, CompositeAuth of an ordered subset (flat or nested)} x
         caller params / cookies / json / form body.
Oracle : a 40-line dict-algebra reference model (`expected`) of what must be on the wire.
"""

from __future__ import annotations

import asyncio
import itertools
import json
from typing import Any

from ..runner import Collector, Violation

PROPERTY_ID = "C17"
LEVEL = "exploration"
RULE = (
    "case = (default headers, per-request headers, bearer_token arg, ordered plugin list [flat or nested CompositeAuth], "
    "caller params, cookies, body). Part A enumerates exhaustively all ordered selections of <=3 plugins out of 10 plugin "
    "configurations x 6 header-overlap configurations x 4 params/cookies presences; part B draws richer cases with "
    "Hypothesis (<=4 plugins, random header names from a pool with case variants, bodies). Non-trivial = >=2 plugins, or a "
    "(case-insensitive) name overlap between defaults / request headers / plugin headers. Distinct = distinct case JSON."
)
ASSUMPTIONS = [
    "header names are compared case-insensitively (HTTP semantics); the model fixes which VALUE wins, not which spelling survives",
    "header/cookie/query names and values are drawn from RFC-token-safe alphabets; multi-valued headers are not generated",
    "the request is observed at httpx.MockTransport, i.e. after httpx's own encoding (trusted)",
]
MIN_NONTRIVIAL = {"quick": 1000, "thorough": 10000}

_loop = None


def _get_loop():
    global _loop
    if _loop is None or _loop.is_closed():
        _loop = asyncio.new_event_loop()
    return _loop


# ---------------------------------------------------------------------------------------------
# reference model


def _ci_set(h: list[tuple[str, str]], name: str, value: str) -> None:
    for i in range(len(h) - 1, -1, -1):
        if h[i][0].lower() == name.lower():
            del h[i]
    h.append((name, value))


def _flatten(plugins: list) -> list:
    out = []
    for p in plugins:
        if p["t"] == "composite":
            out.extend(_flatten(p["plugins"]))
        else:
            out.append(p)
    return out


def _refreshed(mode: str, cur: str, new_token: str) -> str:
    return {"new": new_token, "same": cur, "empty": "", "rotate": cur + "r"}[mode]


def expected(case: dict, step_index: int = 0) -> dict:
    """What must leave the transport. headers: lower-name -> value; query: list of pairs; cookies: dict.
    step_index: how many requests the same transport (hence the same plugin instances) has already sent; an OAuth2 plugin keeps
    the token its callback last returned and hands it to the callback on the next request ("rotate" makes that observable)."""
    h: list[tuple[str, str]] = []
    for k, v in (case.get("defaults") or {}).items():
        _ci_set(h, k, v)
    for k, v in (case.get("request_headers") or {}).items():
        _ci_set(h, k, v)
    query = [(k, str(v)) for k, v in (case.get("params") or {}).items()]
    cookies = dict(case.get("cookies") or {})
    refresh_calls = []
    plugins = case.get("plugins")
    if plugins is not None:
        for i, p in enumerate(_flatten(plugins)):
            if p["t"] == "bearer":
                _ci_set(h, "Authorization", f"Bearer {p['token']}")
            elif p["t"] == "headers":
                for k, v in p["headers"].items():
                    _ci_set(h, k, v)
            elif p["t"] == "apikey":
                if p["loc"] == "header":
                    _ci_set(h, p["name"], p["key"])
                elif p["loc"] == "query":
                    query = [(k, v) for k, v in query if k != p["name"]] + [(p["name"], p["key"])]
                elif p["loc"] == "cookie":
                    cookies[p["name"]] = p["key"]
            elif p["t"] == "oauth2":
                tok = p["token"]
                if p.get("refresh"):
                    refresh_calls.append(i)
                    for _ in range(step_index + 1):
                        new = _refreshed(p["refresh"], tok, p.get("new_token", "NEW"))
                        if new and new != tok:
                            tok = new
                _ci_set(h, "Authorization", f"Bearer {tok}")
    elif case.get("bearer_token") is not None:
        _ci_set(h, "Authorization", f"Bearer {case['bearer_token']}")
    return {"headers": {k.lower(): v for k, v in h}, "query": query, "cookies": cookies, "refresh_calls": len(refresh_calls)}


# ---------------------------------------------------------------------------------------------
# driving the real transport


def _build_auth(plugins: list, counters: dict):
    from pyopenapi_gen.core.auth.base import CompositeAuth
    from pyopenapi_gen.core.auth.plugins import ApiKeyAuth, BearerAuth, HeadersAuth, OAuth2Auth

    def one(p, idx):
        if p["t"] == "bearer":
            return BearerAuth(p["token"])
        if p["t"] == "headers":
            return HeadersAuth(dict(p["headers"]))
        if p["t"] == "apikey":
            return ApiKeyAuth(p["key"], location=p["loc"], name=p["name"])
        if p["t"] == "oauth2":
            cb = None
            if p.get("refresh"):
                mode = p["refresh"]
                new_token = p.get("new_token", "NEW")

                async def cb(cur, mode=mode, new_token=new_token):
                    counters["refresh"] = counters.get("refresh", 0) + 1
                    return _refreshed(mode, cur, new_token)

            return OAuth2Auth(p["token"], refresh_callback=cb)
        if p["t"] == "composite":
            return CompositeAuth(*[one(q, (idx, j)) for j, q in enumerate(p["plugins"])])
        raise ValueError(p)

    if len(plugins) == 1 and plugins[0]["t"] != "composite" and not plugins[0].get("wrap"):
        return one(plugins[0], 0)
    return CompositeAuth(*[one(p, i) for i, p in enumerate(plugins)])


async def _send(case: dict) -> dict:
    import warnings

    import httpx
    from pyopenapi_gen.core.http_transport import HttpxTransport

    seen: list[httpx.Request] = []

    def handler(request: httpx.Request) -> httpx.Response:
        seen.append(request)
        return httpx.Response(200, json={"ok": True})

    counters: dict = {}
    auth = _build_auth(case["plugins"], counters) if case.get("plugins") is not None else None
    import pyopenapi_gen.core.http_transport as ht_mod

    real_client = httpx.AsyncClient

    def client_factory(*a, **kw):  # same client the transport asks for, but wired to the in-memory handler
        kw["transport"] = httpx.MockTransport(handler)
        return real_client(*a, **kw)

    ht_mod.httpx.AsyncClient = client_factory  # type: ignore[misc]
    try:
        t = HttpxTransport(
            "https://api.test",
            auth=auth,
            bearer_token=case.get("bearer_token"),
            default_headers=dict(case["defaults"]) if case.get("defaults") is not None else None,
        )
    finally:
        ht_mod.httpx.AsyncClient = real_client  # type: ignore[misc]
    steps = list(case.get("history") or []) + [case]
    defaults_snapshot = json.dumps(case.get("defaults"), sort_keys=True)
    outcomes = []
    try:
        for step in steps:
            kwargs: dict[str, Any] = {}
            if step.get("request_headers") is not None:
                kwargs["headers"] = dict(step["request_headers"])
            if step.get("params") is not None:
                kwargs["params"] = dict(step["params"])
            if step.get("cookies") is not None:
                kwargs["cookies"] = dict(step["cookies"])
            body = step.get("body") or {}
            if "json" in body:
                kwargs["json"] = body["json"]
            if "data" in body:
                kwargs["data"] = dict(body["data"])
            snapshot = json.dumps(kwargs, sort_keys=True)
            outcome: dict[str, Any] = {"raised": None}
            n_before = len(seen)
            counters["refresh"] = 0
            try:
                with warnings.catch_warnings():
                    warnings.simplefilter("ignore")
                    await t.request(step.get("method", "POST"), step.get("path", "/x"), **kwargs)
            except Exception as e:
                outcome["raised"] = f"{type(e).__name__}: {e}"
            outcome["requests"] = seen[n_before:]
            outcome["refresh"] = counters.get("refresh", 0)
            outcome["kwargs_mutated"] = json.dumps(kwargs, sort_keys=True) != snapshot
            outcomes.append(outcome)
    finally:
        await t.close()
    live_defaults = t._default_headers if case.get("defaults") is not None else None
    return {"steps": outcomes, "defaults_mutated": json.dumps(live_defaults, sort_keys=True) != defaults_snapshot}


def _parse_cookie_header(values: list[str]) -> dict:
    out = {}
    for v in values:
        for part in v.split(";"):
            part = part.strip()
            if "=" in part:
                k, _, val = part.partition("=")
                out[k] = val
    return out


def evaluate(case: dict) -> list[Violation]:
    res = _get_loop().run_until_complete(_send(case))
    viols: list[Violation] = []
    steps = list(case.get("history") or []) + [case]
    for i, (step, out) in enumerate(zip(steps, res["steps"])):
        step_case = {**{k: v for k, v in case.items() if k != "history"}, **step}
        for v in _evaluate_step(step_case, out, i):
            viols.append(v if i == 0 else Violation(v.sig + ("after_history",) if v.sig[-1] != "after_history" else v.sig, f"step {i}: " + v.detail))
    if res["defaults_mutated"]:
        viols.append(Violation(("defaults_dict_mutated",), json.dumps(case)[:500]))
    # a violation that also shows on the first request is reported once, under its plain signature
    plain = {v.sig for v in viols if v.sig[-1:] != ("after_history",)}
    return [v for v in viols if not (v.sig[-1:] == ("after_history",) and v.sig[:-1] in plain)]


def _evaluate_step(case: dict, out: dict, step_index: int = 0) -> list[Violation]:
    from urllib.parse import parse_qsl

    exp = expected(case, step_index)
    viols: list[Violation] = []
    if out["kwargs_mutated"]:
        viols.append(Violation(("caller_kwargs_mutated",), json.dumps(case)[:500]))
    if out["raised"]:
        return [Violation(("transport_raised", out["raised"].split(":")[0]), out["raised"])]
    if len(out["requests"]) != 1:
        return [Violation(("request_count", str(len(out["requests"]))), "")]
    req = out["requests"][0]

    # headers: every modelled name has exactly the modelled value, once
    flat = _flatten(case.get("plugins") or [])
    for name, val in exp["headers"].items():
        got = req.headers.get_list(name, split_commas=False)
        if got != [val]:
            if len(got) > 1:
                kind = "duplicate_case_variants"
            elif not got:
                kind = "missing"
            else:
                kind = "wrong_value"
            viols.append(Violation(("header", kind), f"name={name} expected={[val]} got={got} case={json.dumps(case)[:600]}"))
    auto = {"host", "accept", "accept-encoding", "connection", "user-agent", "content-length", "content-type", "cookie", "transfer-encoding"}
    extra = sorted(set(k.lower() for k in req.headers.keys()) - set(exp["headers"]) - auto)
    if extra:
        viols.append(Violation(("header", "unexpected"), f"names={extra} case={json.dumps(case)[:600]}"))
    # query
    got_q = parse_qsl(req.url.query.decode(), keep_blank_values=True)
    if sorted(got_q) != sorted(exp["query"]):
        has_q = any(p["t"] == "apikey" and p["loc"] == "query" for p in flat)
        miss = [q for q in exp["query"] if q not in got_q]
        caller_lost = any(k in (case.get("params") or {}) and (k, str((case.get("params") or {})[k])) == (k, v) for k, v in miss
                          if not any(p["t"] == "apikey" and p["loc"] == "query" and p["name"] == k for p in flat))
        if caller_lost or not has_q:
            viols.append(Violation(("query", "caller_params_changed"), f"expected={exp['query']} got={got_q}"))
        else:
            viols.append(Violation(("apikey_location", "query"), f"expected={exp['query']} got={got_q}"))
    # cookies
    got_c = _parse_cookie_header(req.headers.get_list("cookie", split_commas=False))
    if got_c != exp["cookies"]:
        has_c = any(p["t"] == "apikey" and p["loc"] == "cookie" for p in flat)
        caller = case.get("cookies") or {}
        caller_lost = any(got_c.get(k) != v for k, v in caller.items()
                          if not any(p["t"] == "apikey" and p["loc"] == "cookie" and p["name"] == k for p in flat))
        if caller_lost or not has_c:
            viols.append(Violation(("cookies", "caller_cookies_changed"), f"expected={exp['cookies']} got={got_c}"))
        else:
            viols.append(Violation(("apikey_location", "cookie"), f"expected={exp['cookies']} got={got_c}"))
    # an API key must not leak into a location it was not configured for
    for p in flat:
        if p["t"] == "apikey":
            if p["loc"] != "header" and p["name"].lower() not in exp["headers"] and req.headers.get(p["name"]) == p["key"]:
                viols.append(Violation(("apikey_leak", "header"), f"{p}"))
            if p["loc"] != "query" and (p["name"], p["key"]) in got_q and (p["name"], p["key"]) not in exp["query"]:
                viols.append(Violation(("apikey_leak", "query"), f"{p}"))
    # body
    body = case.get("body") or {}
    if "json" in body:
        try:
            ok = json.loads(req.content.decode()) == body["json"] and req.headers.get("content-type", "").startswith("application/json")
        except Exception:
            ok = False
        if not ok:
            viols.append(Violation(("body", "json_changed"), f"content={req.content[:200]!r}"))
    elif "data" in body:
        if sorted(parse_qsl(req.content.decode(), keep_blank_values=True)) != sorted((k, str(v)) for k, v in body["data"].items()):
            viols.append(Violation(("body", "form_changed"), f"content={req.content[:200]!r}"))
    else:
        if req.content not in (b"",):
            viols.append(Violation(("body", "unexpected"), f"content={req.content[:200]!r}"))
    if req.method != case.get("method", "POST") or req.url.path != case.get("path", "/x"):
        viols.append(Violation(("method_or_path",), f"{req.method} {req.url.path}"))
    if out["refresh"] != exp["refresh_calls"]:
        viols.append(Violation(("oauth2_refresh_calls",), f"expected={exp['refresh_calls']} got={out['refresh']}"))
    return viols


# ---------------------------------------------------------------------------------------------
# classification


def _names(case: dict) -> list[list[str]]:
    groups = [list((case.get("defaults") or {}).keys()), list((case.get("request_headers") or {}).keys())]
    for p in _flatten(case.get("plugins") or []):
        if p["t"] in ("bearer", "oauth2"):
            groups.append(["Authorization"])
        elif p["t"] == "headers":
            groups.append(list(p["headers"].keys()))
        elif p["t"] == "apikey" and p["loc"] == "header":
            groups.append([p["name"]])
    if case.get("plugins") is None and case.get("bearer_token") is not None:
        groups.append(["Authorization"])
    return groups


def classify(case: dict) -> tuple[bool, list[str]]:
    labs = []
    flat = _flatten(case.get("plugins") or [])
    groups = _names(case)
    overlap = False
    exact_case_overlap = False
    variant_overlap = False
    for i in range(len(groups)):
        for j in range(i + 1, len(groups)):
            for a in groups[i]:
                for b in groups[j]:
                    if a.lower() == b.lower():
                        overlap = True
                        if a == b:
                            exact_case_overlap = True
                        else:
                            variant_overlap = True
    if overlap:
        labs.append("overlap")
    if variant_overlap:
        labs.append("overlap_case_variant")
    if exact_case_overlap:
        labs.append("overlap_same_spelling")
    labs.append(f"plugins_{min(len(flat), 4)}")
    for p in flat:
        labs.append("plugin_" + p["t"] + ("_" + p["loc"] if p["t"] == "apikey" else "") + ("_refresh_" + p["refresh"] if p.get("refresh") else ""))
    if any(p["t"] == "composite" for p in (case.get("plugins") or [])):
        labs.append("nested_composite")
    if case.get("plugins") is None:
        labs.append("no_auth_bearer_arg" if case.get("bearer_token") is not None else "no_auth")
    elif case.get("bearer_token") is not None:
        labs.append("auth_and_bearer_arg")
    if case.get("history"):
        labs.append("history")
    if case.get("params"):
        labs.append("caller_params")
    if case.get("cookies"):
        labs.append("caller_cookies")
    if case.get("body"):
        labs.append("body_" + next(iter(case["body"])))
    return (len(flat) >= 2 or overlap), labs


# ---------------------------------------------------------------------------------------------
# domain: known-finding triggers (excluded by construction so the search goes on behind them)

def trigger_apikey_nonheader(case: dict) -> bool:
    return any(p["t"] == "apikey" and p["loc"] in ("query", "cookie") for p in _flatten(case.get("plugins") or []))


def trigger_case_variant_overlap(case: dict) -> bool:
    return "overlap_case_variant" in classify(case)[1]


PLUGIN_CONFIGS = [
    {"t": "bearer", "token": "tb"},
    {"t": "apikey", "loc": "header", "name": "X-API-Key", "key": "k1"},
    {"t": "apikey", "loc": "header", "name": "Authorization", "key": "k2"},
    {"t": "apikey", "loc": "query", "name": "api_key", "key": "k3"},
    {"t": "apikey", "loc": "cookie", "name": "sid", "key": "k4"},
    {"t": "headers", "headers": {"X-A": "ha", "X-Trace": "ht"}},
    {"t": "headers", "headers": {"Authorization": "hz", "X-API-Key": "hk"}},
    {"t": "oauth2", "token": "o1"},
    {"t": "oauth2", "token": "o2", "refresh": "new", "new_token": "o2n"},
    {"t": "oauth2", "token": "o3", "refresh": "same"},
    {"t": "oauth2", "token": "o4", "refresh": "rotate"},
]
HEADER_CONFIGS = [
    (None, None),
    ({"X-A": "d1", "X-D": "d2"}, None),
    ({"X-A": "d1"}, {"X-A": "r1", "X-R": "r2"}),
    ({"Authorization": "dAuth", "X-API-Key": "dKey"}, {"X-Trace": "r3"}),
    (None, {"Authorization": "rAuth", "X-A": "r4"}),
    ({"X-D": "d5"}, {"X-R": "r5"}),
]
HEADER_CONFIGS_VARIANTS = [
    ({"X-A": "d1"}, {"x-a": "r1"}),
    ({"authorization": "dAuth"}, None),
    (None, {"x-api-key": "rk"}),
    ({"X-Trace": "d"}, {"X-TRACE": "r"}),
]
PRESENCE = [(None, None), ({"q": "1", "r": "é x"}, None), (None, {"c1": "v1"}), ({"api_key": "caller", "q": "2"}, {"sid": "caller", "c2": "v2"})]


def _enum_cases(variants: bool):
    hcs = HEADER_CONFIGS + (HEADER_CONFIGS_VARIANTS if variants else [])
    for n in range(0, 4):
        for sel in itertools.permutations(range(len(PLUGIN_CONFIGS)), n):
            for hi, (d, r) in enumerate(hcs):
                for pi, (params, cookies) in enumerate(PRESENCE):
                    # keep the product below ~2*10^4 requests: presence axis only varied fully for n<=2
                    if n == 3 and pi not in (0, 3):
                        continue
                    case = {
                        "defaults": d, "request_headers": r, "bearer_token": None,
                        "plugins": [dict(PLUGIN_CONFIGS[i]) for i in sel] if n else None,
                        "params": params, "cookies": cookies, "body": None, "method": "GET", "path": "/x",
                    }
                    if (hi + pi + n) % 3 == 0:
                        case["history"] = [{"request_headers": {"X-A": "hist", "X-H": "h2"}, "params": {"hq": "1"}, "cookies": None, "body": None,
                                            "method": "GET", "path": "/x"}]
                    if n == 0 and hi % 2 == 0:
                        case["bearer_token"] = "argtok"
                    if n == 1 and hi % 2 == 1:
                        case["plugins"][0]["wrap"] = True
                    yield case


def shards(tier: str, seed: int) -> list[dict]:
    out = [{"mode": "enum", "slice": i, "of": 12} for i in range(12)]
    n_h, per = (16, 1500) if tier == "quick" else (48, 12000)
    out += [{"mode": "hyp", "seed": seed * 1000 + i, "examples": per} for i in range(n_h)]
    return out


def _strategy():
    from hypothesis import strategies as st

    names = st.sampled_from(["X-A", "x-a", "X-a", "X-B", "X-Trace", "x-trace", "Authorization", "authorization", "AUTHORIZATION",
                             "X-API-Key", "x-api-key", "Accept", "User-Agent", "X-Z9", "Content-Language"])
    vals = st.text("abcdefghijklmnopqrstuvwxyzABCXYZ0123456789-_.~ ", min_size=1, max_size=10).map(str.strip).filter(bool)
    def ci_unique(d):
        seen, out = set(), {}
        for k, v in d.items():
            if k.lower() not in seen:
                seen.add(k.lower())
                out[k] = v
        return out

    hdrs = st.one_of(st.none(), st.dictionaries(names, vals, max_size=4).map(ci_unique))
    tok = st.text("abcdefghijklmnopqrstuvwxyz0123456789._-", min_size=1, max_size=12)
    cname = st.sampled_from(["sid", "api_key", "token", "k", "X-API-Key", "c1", "q"])
    plugin_leaf = st.one_of(
        st.fixed_dictionaries({"t": st.just("bearer"), "token": tok}),
        st.fixed_dictionaries({"t": st.just("apikey"), "loc": st.sampled_from(["header", "query", "cookie"]), "name": st.one_of(names, cname), "key": tok}),
        st.fixed_dictionaries({"t": st.just("headers"), "headers": st.dictionaries(names, vals, min_size=1, max_size=3).map(ci_unique)}),
        st.fixed_dictionaries({"t": st.just("oauth2"), "token": tok}),
        st.fixed_dictionaries({"t": st.just("oauth2"), "token": tok, "refresh": st.sampled_from(["new", "same", "empty", "rotate", "rotate"]), "new_token": tok}),
    )
    plugin = st.one_of(plugin_leaf, plugin_leaf, plugin_leaf,
                       st.fixed_dictionaries({"t": st.just("composite"), "plugins": st.lists(plugin_leaf, min_size=0, max_size=3)}))
    qvals = st.one_of(vals, st.integers(0, 99).map(str), st.sampled_from(["é", "a b", "x&y=z", "漢"]))
    params = st.one_of(st.none(), st.dictionaries(st.one_of(cname, st.sampled_from(["filter", "sort-by", "é"])), qvals, max_size=3))
    cookies = st.one_of(st.none(), st.dictionaries(st.sampled_from(["sid", "c1", "c2", "token"]), tok, max_size=2))
    body = st.one_of(
        st.none(),
        st.fixed_dictionaries({"json": st.recursive(st.one_of(st.integers(-5, 5), st.text(max_size=5), st.none(), st.booleans()),
                                                       lambda c: st.one_of(st.lists(c, max_size=3), st.dictionaries(st.text(max_size=4), c, max_size=3)), max_leaves=5)
                                  .filter(lambda j: j is not None)}),
        st.fixed_dictionaries({"data": st.dictionaries(st.sampled_from(["a", "b", "c d"]), vals, min_size=1, max_size=3)}),
    )
    step = st.fixed_dictionaries({"request_headers": hdrs, "params": params, "cookies": cookies, "body": body,
                                  "method": st.sampled_from(["GET", "POST"]), "path": st.just("/x")})
    return st.fixed_dictionaries({
        "history": st.one_of(st.just([]), st.just([]), st.lists(step, min_size=1, max_size=3)),
        "defaults": hdrs, "request_headers": hdrs,
        "bearer_token": st.one_of(st.none(), tok),
        "plugins": st.one_of(st.none(), st.lists(plugin, min_size=0, max_size=4)),
        "params": params, "cookies": cookies, "body": body,
        "method": st.sampled_from(["GET", "POST", "PUT", "DELETE", "PATCH"]),
        "path": st.sampled_from(["/x", "/a/b", "/"]),
    })


def _neutralise(case: dict, col: Collector, avoid: set[str]) -> dict:
    """Exclude listed findings by construction (only those still open in known_findings.json)."""
    import copy

    c = copy.deepcopy(case)
    # the property does not say who wins when a caller's own query/cookie name equals an API-key name: never generated
    flat0 = _flatten(c.get("plugins") or [])
    for loc, field in (("query", "params"), ("cookie", "cookies")):
        taken = {p["name"] for p in flat0 if p["t"] == "apikey" and p["loc"] == loc}
        if c.get(field) and taken & set(c[field]):
            c[field] = {(k + "_c" if k in taken else k): v for k, v in c[field].items()}
            col.excluded["caller_name_equals_apikey_name"] += 1
    if "apikey_nonheader" in avoid and trigger_apikey_nonheader(c):
        col.excluded["apikey_query_or_cookie"] += 1

        def fix(ps):
            for p in ps:
                if p["t"] == "composite":
                    fix(p["plugins"])
                elif p["t"] == "apikey" and p["loc"] in ("query", "cookie"):
                    p["loc"] = "header"
        fix(c["plugins"])
    if "case_variant" in avoid and trigger_case_variant_overlap(c):
        col.excluded["case_variant_header_overlap"] += 1

        def canon_name(n: str) -> str:
            return "-".join(w.capitalize() if w.lower() not in ("api",) else "API" for w in n.split("-"))

        def fixh(h):
            return {canon_name(k): v for k, v in h.items()} if h else h
        c["defaults"] = fixh(c.get("defaults"))
        c["request_headers"] = fixh(c.get("request_headers"))

        def fixp(ps):
            for p in ps:
                if p["t"] == "composite":
                    fixp(p["plugins"])
                elif p["t"] == "headers":
                    p["headers"] = fixh(p["headers"])
                elif p["t"] == "apikey" and p["loc"] == "header":
                    p["name"] = canon_name(p["name"])
        fixp(c.get("plugins") or [])
    return c


def _avoid_set() -> set[str]:
    from ..runner import load_known_findings

    avoid = set()
    for k in load_known_findings("C17"):
        if k.get("status") == "open" and k.get("trigger"):
            avoid.add(k["trigger"])
    return avoid


def run_shard(shard: dict) -> dict:
    col = Collector()
    avoid = _avoid_set()
    if shard["mode"] == "enum":
        for i, case in enumerate(_enum_cases(variants="case_variant" not in avoid)):
            if i % shard["of"] != shard["slice"]:
                continue
            c = _neutralise(case, col, avoid)
            nt, labs = classify(c)
            col.record(c, evaluate(c), nt, labs)
        col.extra["enumerated_part_A_complete"] = True
        return col.to_dict()

    import hypothesis
    from hypothesis import HealthCheck, Phase, given, settings

    @hypothesis.seed(shard["seed"])
    @settings(max_examples=shard["examples"], database=None, deadline=None, suppress_health_check=list(HealthCheck),
              phases=[Phase.generate], report_multiple_bugs=False)
    @given(_strategy())
    def body(case):
        c = _neutralise(case, col, avoid)
        nt, labs = classify(c)
        col.record(c, evaluate(c), nt, labs)

    body()
    return col.to_dict()
