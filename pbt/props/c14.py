"""C14 — union values are decoded as the right variant, never lossily.

Domain : unions of 2..4 variants (object variants with required/optional field sets: disjoint, overlapping, nested, all-optional;
         primitives, arrays, maps; nullable) placed as a named alias, as a field of a holder object and as array items;
         with/without discriminator; mapping explicit / implicit (schema names) / partial; variant names whose module stem is
         tricky (Cat2Dog, LineItem); every variant order (permutations are part of the draw).
Oracle : for a payload p conforming to variant i: unstructure(structure(p, Union)) == p (C03 relation) — no key discarded by
         matching another variant.  With discriminator (+mapping): the decoded value's class is exactly the mapped one; an unmapped
         discriminator value => an error, not a guess; a payload that names a mapped variant but cannot be decoded as it => an
         error, not another variant.
"""

from __future__ import annotations

import itertools
import json

from .. import domain, genrun, hyp, specgen
from ..refmodel import instances as I
from ..runner import Collector, Violation
from . import c03

PROPERTY_ID = "C14"
LEVEL = "exploration"
RULE = (
    "case = (union document built by the C14 strategy [variant kinds, field-set relation, discriminator mode, variant order], "
    "layout, payloads: for every variant up to 3 conforming documents, decoded through the alias, through a holder field and "
    "through an array of the union; for discriminated unions also an unmapped discriminator value and a mapped-but-undecodable "
    "payload). Non-trivial = >= 2 object variants sharing >= 1 property name. distinct = distinct (union, place, payload)."
)
ASSUMPTIONS = [
    "without a discriminator, a payload that ALSO satisfies an earlier variant (its required keys are a subset and no key type clashes) is the trigger of the listed first-match finding and is excluded by construction (every object variant gets a distinguishing required field)",
    "unions with more than one scalar variant are a separate listed finding (scalar coercion) and are excluded by construction",
    "payload comparison uses the schema of the variant the payload was generated from",
]
MIN_NONTRIVIAL = {"quick": 300, "thorough": 4000}

VARIANT_NAMES = ["Cat", "Dog", "Bird", "Cat2Dog", "LineItem", "Fish"]
FIELDS = {
    "name": {"type": "string"}, "age": {"type": "integer"}, "tags": {"type": "array", "items": {"type": "string"}},
    "meta": {"type": "object", "additionalProperties": {"type": "string"}}, "wings": {"type": "integer"}, "claw": {"type": "number"},
    "active": {"type": "boolean"}, "since": {"type": "string", "format": "date"}, "userId": {"type": "string"},
}
SCALARS = [{"type": "string"}, {"type": "integer"}, {"type": "number"}, {"type": "boolean"}]
CONTAINERS = [{"type": "array", "items": {"type": "string"}}, {"type": "object", "additionalProperties": {"type": "integer"}}]


def valid_case(case: dict) -> bool:
    if not specgen.valid_case(case):
        return False
    schemas = (case["spec"].get("components") or {}).get("schemas") or {}
    if "U" not in schemas:
        return False
    variants = schemas["U"].get("oneOf") or schemas["U"].get("anyOf") or []
    for p in case.get("payloads") or []:
        if p.get("kind", "conforming") != "conforming":
            continue
        if not (0 <= p.get("variant", -1) < len(variants)) or not I.conforms(p.get("doc"), variants[p["variant"]], schemas) or p.get("doc") is None:
            return False
    return True


def build_strategy(gate: specgen.Gate):
    from hypothesis import strategies as st

    @st.composite
    def cases(draw):
        n = draw(st.integers(2, 4))
        names = draw(st.permutations(VARIANT_NAMES))[:n]
        disc = gate.pick(draw, [(None, "none"), (None, "none"), (None, "explicit"), (None, "explicit"), ("union_discriminator_implicit", "implicit"),
                                (None, "partial")], fallback="none")
        if disc in ("explicit", "partial"):
            # the discriminator decides: overlapping / identical / all-optional field sets are legitimate here
            relation = draw(st.sampled_from(["distinct_required", "overlap_optional", "subset", "all_optional", "same_required"]))
        else:
            relation = gate.pick(draw, [(None, "distinct_required"), (None, "distinct_required"), (None, "overlap_optional"),
                                        ("union_ambiguous_variants", "subset"), ("union_ambiguous_variants", "all_optional"),
                                        ("union_ambiguous_variants", "same_required")], fallback="distinct_required")
        n_scalar, n_container = gate.pick(draw, [(None, (0, 0)), (None, (0, 0)), (None, (1, 0)), (None, (0, 1)), ("union_multi_nonobject", (1, 1)),
                                                 ("union_multi_nonobject", (2, 0)), ("union_multi_nonobject", (2, 1))], fallback=(0, 0))
        if disc != "none":
            n_scalar = n_container = 0
        n_obj = max(1 if (n_scalar or n_container) else 2, n - n_scalar - n_container)
        names = list(names)[:n_obj] + VARIANT_NAMES[: max(0, n_obj - len(names))]
        schemas: dict = {}
        shared = draw(st.lists(st.sampled_from(sorted(FIELDS)), min_size=1, max_size=3, unique=True))
        base_required = draw(st.lists(st.sampled_from(shared), max_size=len(shared), unique=True))
        used_only: set[str] = set()
        for i, vn in enumerate(names):
            props = {k: FIELDS[k] for k in shared} if relation != "distinct_required" or draw(st.booleans()) else {}
            extra = draw(st.lists(st.sampled_from(sorted(FIELDS)), max_size=2, unique=True))
            for k in extra:
                props[k] = FIELDS[k]
            req: list[str] = []
            if relation in ("distinct_required", "overlap_optional"):
                # the distinguishing required field, under wire names of several styles (camelCase, kebab, @-prefixed, acronym run,
                # names the generator has to rename because they are reserved in Python)
                free_reserved = [r for r in ("format", "filter", "object", "max", "in", "class", "id", "type") if r not in used_only and r not in props]
                only = draw(st.sampled_from([f"only{vn}", f"only{vn}", f"only-{vn.lower()}", f"@only{vn}", f"HTTP{vn}Code"] + free_reserved[:2]))
                used_only.add(only)
                props[only] = draw(st.sampled_from([{"type": "string"}, {"type": "integer"}]))
                req = [only] + [k for k in props if k != only and draw(st.integers(0, 3)) == 0]
            elif relation == "subset":
                # variant i requires the first i+1 shared keys (+ has them all): earlier variants' required sets are subsets of later ones
                keys = shared[: i + 1] if i < len(shared) else shared
                req = list(keys)
            elif relation == "same_required":
                req = [k for k in base_required if k in props]
            elif relation == "all_optional":
                req = []
            if disc != "none":
                val = vn if disc == "implicit" else vn.lower() + "_v"
                vals = [val]
                if disc in ("explicit", "partial") and draw(st.integers(0, 2)) == 0:
                    vals = draw(st.permutations([val, val + "2", "legacy_" + val]))[: draw(st.integers(2, 3))]  # several values -> one variant
                props["kind"] = {"type": "string", "enum": list(vals)}
                req = ["kind"] + [r for r in req if r != "kind"]
            node = {"type": "object", "properties": props}
            if req:
                node["required"] = req
            schemas[vn] = node
        variants = [{"$ref": f"#/components/schemas/{vn}"} for vn in names]
        # container variants: of primitives, or an array of one of the union's own object variants ("one or many")
        containers = CONTAINERS + [{"type": "array", "items": {"$ref": f"#/components/schemas/{names[0]}"}}] * 4
        others = draw(st.permutations(SCALARS))[:n_scalar] + draw(st.permutations(containers))[:n_container]
        variants = draw(st.permutations(variants + list(others)))
        keyword = draw(st.sampled_from(["oneOf", "anyOf"]))
        U: dict = {keyword: list(variants)}
        if disc != "none":
            U["discriminator"] = {"propertyName": "kind"}
            if disc in ("explicit", "partial"):
                pairs = [(v, vn) for vn in names for v in schemas[vn]["properties"]["kind"]["enum"]]
                pairs = draw(st.permutations(pairs))
                mapping = {v: f"#/components/schemas/{vn}" for v, vn in pairs}
                if disc == "partial" and len(mapping) > 1:
                    mapping.pop(sorted(mapping)[0])
                U["discriminator"]["mapping"] = mapping
        if gate.flag(draw, "union_nullable", 1, 6):
            U["nullable"] = True
        schemas["U"] = U
        schemas["Holder"] = {"type": "object", "properties": {"one": {"$ref": "#/components/schemas/U"}, "many": {"type": "array", "items": {"$ref": "#/components/schemas/U"}},
                                                               "label": {"type": "string"}}, "required": ["label"]}
        spec = {"openapi": "3.0.3", "info": {"title": "Unions", "version": "1"}, "paths": {
            "/u": {"get": {"operationId": "getU", "responses": {"200": {"description": "ok", "content": {"application/json": {"schema": {"$ref": "#/components/schemas/Holder"}}}}}}}},
            "components": {"schemas": schemas}}
        cfg = draw(specgen.configs(gate))
        payloads = []
        for vi, v in enumerate(variants):
            for _ in range(draw(st.integers(1, 3))):
                doc = draw(I.instances(v, schemas, allow_null=False).filter(lambda d: d is not None))
                payloads.append({"kind": "conforming", "variant": vi, "doc": doc})
        # payloads of container variants first: they are then the FIRST thing the fresh package's converter ever decodes (no hook
        # for their element classes has been registered by an earlier decode)
        payloads.sort(key=lambda p: 0 if isinstance(p["doc"], list) and p["doc"] else 1)
        if disc != "none":
            some = names[0]
            good = draw(I.instances({"$ref": f"#/components/schemas/{some}"}, schemas, allow_null=False))
            payloads.append({"kind": "unmapped_discriminator", "variant": -1, "doc": {**good, "kind": "no_such_variant"}})
            # a payload that names variant `some` but lacks one of its other required fields / has a wrongly typed one
            others_req = [r for r in schemas[some].get("required", []) if r != "kind"]
            bad = dict(good)
            if others_req:
                bad.pop(others_req[0], None)
                payloads.append({"kind": "mapped_but_undecodable", "variant": -1, "doc": bad, "names": some})
        return {"spec": spec, "cfg": cfg, "payloads": payloads, "relation": relation, "disc": disc}

    return cases()


def _shared_props(schemas: dict) -> bool:
    objs = [set(n.get("properties", {})) - {"kind"} for k, n in schemas.items() if k not in ("U", "Holder") and isinstance(n, dict)]
    return any(a & b for a, b in itertools.combinations(objs, 2))


def check(res: genrun.GenResult, case: dict) -> tuple[list[Violation], list[tuple[dict, bool]]]:
    spec = case["spec"]
    schemas = spec["components"]["schemas"]
    U = schemas["U"]
    variants = U.get("oneOf") or U.get("anyOf")
    viols: list[Violation] = []
    acc = []
    nt = _shared_props(schemas)
    disc = "discriminator" in U
    mapping = (U.get("discriminator") or {}).get("mapping")
    with genrun.load_package(res):
        models = genrun.import_module_of(res, "models")
        conv = genrun.core_module_of(res, "cattrs_converter")
        Ucls = c03.model_class(models, "U")
        Hcls = c03.model_class(models, "Holder")
        if Ucls is None or Hcls is None:
            return [Violation(("model_missing",), f"U={Ucls} Holder={Hcls}")], acc
        for p in case["payloads"]:
            doc = p["doc"]
            places = [("alias", Ucls, doc, lambda b: b), ("field", Hcls, {"label": "x", "one": doc}, lambda b: b.get("one")),
                      ("item", Hcls, {"label": "x", "many": [doc, doc]}, lambda b: (b.get("many") or [None])[0])]
            for place, cls, wrapped, unwrap in places:
                acc.append(({"place": place, "payload": p, "union": U}, nt))
                tag = ("disc_" + case.get("disc", "?"),)
                try:
                    inst = conv.structure_from_dict(wrapped, cls)
                    back = json.loads(json.dumps(conv.unstructure_to_dict(inst), default=str))
                    raised = None
                except Exception as e:
                    raised = e
                if p["kind"] == "conforming":
                    v = variants[p["variant"]]
                    vkind = I.kind_of(v, schemas)
                    if disc and mapping is not None and isinstance(doc, dict) and doc.get("kind") not in mapping:
                        continue  # partial mapping: this value is unmapped, an error is what the property asks for
                    if raised is not None:
                        viols.append(Violation(("conforming_payload_rejected", vkind) + tag, f"variant {p['variant']} doc={json.dumps(doc)[:300]}: {str(raised)[:400]}"))
                        continue
                    got = unwrap(back)
                    d = I.diff(doc, got, v, schemas)
                    if d:
                        what = "key_lost" if "key lost" in d else ("unexpected_key" if "unexpected key" in d else "value_changed")
                        viols.append(Violation(("lossy_decode", what, vkind) + tag, f"variant {p['variant']} ({json.dumps(v)[:80]}): {d} doc={json.dumps(doc)[:300]} back={json.dumps(got)[:300]} variants={json.dumps(variants)[:300]}"))
                        continue
                    if disc and vkind == "object" and place == "alias":
                        vn = I.ref_name(v)
                        want = c03.model_class(models, vn)
                        if want is not None and type(inst) is not want and not (mapping is not None and doc.get("kind") not in mapping):
                            viols.append(Violation(("discriminated_wrong_class",) + tag, f"expected {want.__name__} got {type(inst).__name__} doc={json.dumps(doc)[:200]}"))
                elif p["kind"] == "unmapped_discriminator":
                    if raised is None and (mapping is not None or case.get("disc") == "implicit"):
                        viols.append(Violation(("unmapped_discriminator_value_accepted",) + tag, f"doc={json.dumps(doc)[:300]} decoded as {unwrap(back)!r}"[:600]))
                elif p["kind"] == "mapped_but_undecodable":
                    if raised is None and mapping is not None and doc.get("kind") in mapping:
                        viols.append(Violation(("mapped_variant_failure_not_reported",) + tag, f"doc={json.dumps(doc)[:300]} decoded as {unwrap(back)!r}"[:600]))
    return viols, acc


def evaluate(case: dict) -> list[Violation]:
    res = genrun.generate({**case, "cfg": {**case["cfg"], "prefix": genrun.unique_prefix()}})
    try:
        if not res.ok or genrun.compile_all(res):
            return []
        try:
            return check(res, case)[0]
        except (ImportError, SyntaxError, NameError, TypeError, AttributeError):
            return []
    finally:
        genrun.cleanup(res)


def shards(tier: str, seed: int) -> list[dict]:
    n_sh, per = (16, 120) if tier == "quick" else (48, 500)
    return [{"seed": seed * 1000 + i, "n": per} for i in range(n_sh)]


def run_shard(shard: dict) -> dict:
    from .. import runner

    col = Collector()
    gate = specgen.Gate(domain.excluded("C01", "C14"))
    cases = hyp.draw_cases(build_strategy(gate), shard["n"], shard["seed"])
    col.excluded.update(gate.excluded)
    for i, case in enumerate(cases):
        res = genrun.generate({**case, "cfg": {**case["cfg"], "prefix": genrun.unique_prefix()}})
        try:
            if not res.ok:
                col.rejected += 1
                continue
            if genrun.compile_all(res):
                col.classes["skipped_c01_compile"] += 1
                continue
            try:
                viols, acc = check(res, case)
            except (ImportError, SyntaxError, NameError, TypeError, AttributeError) as e:
                col.classes["skipped_c01_import"] += 1
                col.extra.setdefault("import_skips", [])
                if len(col.extra["import_skips"]) < 3:
                    col.extra["import_skips"].append(f"{type(e).__name__}: {e}"[:200])
                continue
            for a, nt in acc:
                col.record(a, [], nt, ["place_" + a["place"], "payload_" + a["payload"]["kind"], "relation_" + case["relation"], "disc_" + case["disc"]])
            for v in viols:
                col.add_violation(v, case)
        finally:
            genrun.cleanup(res)
        if i % 40 == 0:
            runner.truncate_generator_logs()
    return col.to_dict()
