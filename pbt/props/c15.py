"""C15 — spec text can never alter the structure of generated code.

Domain : one benign template document that exercises every emitter x EVERY text-bearing position (info title/description, schema
         description, property description, property name, enum value, default, parameter name per location, parameter
         description, operation summary/description, operationId, tag, response description, discriminator mapping value, inline
         enum of a parameter) x a dictionary of hostile payloads, wrapped as `ab<payload>cd` so that derived identifiers stay
         non-empty; plus Hypothesis text() in random positions.
Oracle : every emitted file ast.parse()s; the multiset of file SKELETONS (AST dump with identifiers, constants and docstrings
         masked; comments absent by construction) equals that of the same document with the payload replaced by `x`; literals
         that carry meaning evaluate to exactly the original strings: enum member values, Meta wire keys, discriminator mapping
         keys, query/header/cookie names seen by a capturing transport.
"""

from __future__ import annotations

import ast
import copy
import hashlib
import json
import os

from .. import drive, genrun, hyp
from ..runner import Collector, Violation

PROPERTY_ID = "C15"
LEVEL = "exploration"
RULE = (
    "case = (text-bearing position, payload). The position x payload matrix (33 positions x 50 payloads mid-text, plus 24 edge-sensitive payloads x 5 other placements: alone / at the start / at the end / on a line of its own / inside a long wrapped text; thorough: all payloads x all placements) is enumerated completely; "
    "Hypothesis text() payloads are added on top. Non-trivial = the payload reaches generated text (it, or an escaped spelling of "
    "it, occurs in some emitted file). Matrix cases are distinct by construction."
)
ASSUMPTIONS = [
    "positions whose text legitimately becomes identifiers (property/parameter names, operationId, tag) are compared with identifiers masked; file names may differ, so skeletons are compared as a multiset",
    "a visible rejection (generate_client raises) for a hostile name is acceptable",
    "nothing is asserted about docstring/comment wording",
]
MIN_NONTRIVIAL = {"quick": 300, "thorough": 1500}

R = "#/components/schemas/"
PAYLOADS = [
    '"', "'", '"""', "'''", "\\", "\\\\", "\n", "\r", "\r\n", "\\n", "\\N{BULLET}", "\\x41", "\\u0041", "{}", "{x}", "{0}", "%s", "#", ":", "\t",
    "\x0b", "\x1f", " ", "‮", "é", "\U0001F600", "é漢", 'x" + __import__("os").getcwd() + "', "\"\"\"\nimport os\n\"\"\"", "line1\\\nline2",
    "trailing\\", "'; pass #", "*/", "${x}", "a\x00b", "\u2028", "\x85", "\x0c", "\x1c", "\U00012c44",
    "async def injected(self) -> None:", "@overload", "def f():", "class X:", "import os", "return 1", "Args:", "    x = 1", ">>> 1/0", "# type: ignore",
]
# payloads whose effect depends on what is next to them (closing quotes, start of a line, end of the text): also placed
# alone / at the start / at the end / on a line of their own
EDGE_PAYLOADS = ['"', "'", "\\", '"""', "\r", "#", "{x}", "async def injected(self) -> None:", "@overload", "def f():", "class X:", "    x = 1", "\x00",
                 " ", "\n", "\t", "\u2028", "\xa0", '" ', '"\n', "\\ ", "\\\n", '""" ', "' "]
PLACES = {
    "mid": lambda p: "ab" + p + "cd",
    "whole": lambda p: p,
    "end": lambda p: "ab" + p,
    "start": lambda p: p + "cd",
    "own_line": lambda p: "ab\n" + p + "\ncd",
    "long_wrapped": lambda p: ("word " * 30) + p + (" word" * 30),
}


def template() -> dict:
    return {
        "openapi": "3.0.3",
        "info": {"title": "Template API", "version": "1.0.0", "description": "An API."},
        "paths": {
            "/things/{thingId}": {
                "get": {
                    "operationId": "getThing", "tags": ["things"], "summary": "Get a thing", "description": "Longer text.",
                    "parameters": [
                        {"name": "thingId", "in": "path", "required": True, "schema": {"type": "string"}, "description": "The id."},
                        {"name": "filter", "in": "query", "schema": {"type": "string"}, "description": "A filter."},
                        {"name": "sort", "in": "query", "schema": {"type": "string", "enum": ["asc", "desc"]}},
                        {"name": "X-Trace", "in": "header", "schema": {"type": "string"}},
                        {"name": "sid", "in": "cookie", "schema": {"type": "string"}},
                    ],
                    "responses": {"200": {"description": "A thing.", "content": {"application/json": {"schema": {"$ref": R + "Thing"}}}},
                                  "404": {"description": "Not found."}},
                },
                "put": {
                    "operationId": "putThing", "tags": ["things"],
                    "parameters": [{"name": "thingId", "in": "path", "required": True, "schema": {"type": "string"}}],
                    "requestBody": {"required": True, "content": {"application/json": {"schema": {"$ref": R + "Thing"}}}},
                    "responses": {"200": {"description": "Updated.", "content": {"application/json": {"schema": {"$ref": R + "Shape"}}}}},
                },
            },
            "/things": {"post": {
                "operationId": "createThing", "tags": ["things"], "summary": "Create", "description": "Create a thing.",
                "requestBody": {"description": "The body.", "required": True, "content": {"application/json": {"schema": {"$ref": R + "Thing"}},
                                                                 "multipart/form-data": {"schema": {"type": "object", "properties": {"file": {"type": "string", "format": "binary"}}}}}},
                "responses": {"201": {"description": "Created.", "content": {"application/json": {"schema": {"$ref": R + "Marker"}}}}}}},
            "/events": {"get": {"operationId": "streamEvents", "tags": ["events"], "summary": "Stream", "responses": {"200": {"description": "Events.", "content": {"text/event-stream": {"schema": {"$ref": R + "Thing"}}}}}}},
        },
        "components": {"schemas": {
            "Thing": {"type": "object", "description": "A thing.", "properties": {
                "name": {"type": "string", "description": "The name."},
                "note": {"type": "string", "default": "dflt"},
                "status": {"type": "string", "enum": ["active", "inactive"], "description": "State."},
                "tags": {"type": "array", "items": {"type": "string"}},
                "meta": {"type": "object", "additionalProperties": {"type": "string"}, "description": "A map."},
                "size": {"$ref": R + "Size"}},
                "required": ["name"]},
            "Size": {"type": "string", "enum": ["small", "large"], "description": "Sizes."},
            "Marker": {"type": "object", "description": "A marker."},
            "Count": {"type": "integer", "description": "A count."},
            "Alias": {"type": "array", "items": {"$ref": R + "Thing"}, "description": "An alias."},
            "Circle": {"type": "object", "properties": {"kind": {"type": "string", "enum": ["circle"]}, "r": {"type": "number"}}, "required": ["kind"]},
            "Square": {"type": "object", "properties": {"kind": {"type": "string", "enum": ["square"]}, "a": {"type": "number"}}, "required": ["kind"]},
            "Shape": {"oneOf": [{"$ref": R + "Circle"}, {"$ref": R + "Square"}], "description": "A shape.",
                      "discriminator": {"propertyName": "kind", "mapping": {"circle": R + "Circle", "square": R + "Square"}}},
        }},
    }


def _set(spec, path, value):
    node = spec
    for p in path[:-1]:
        node = node[p]
    node[path[-1]] = value


class PayloadEqualsExistingName(Exception):
    """The text equals a name the template already uses in that namespace: not a text-injection case (two declarations would merge)."""


def _rename_key(d: dict, old: str, new: str):
    if new != old and new in d:
        raise PayloadEqualsExistingName(new)
    items = [(new if k == old else k, v) for k, v in d.items()]
    d.clear()
    d.update(items)


# position -> (apply(spec, text), semantic check kind | None)
def _pos_property_name(spec, text):
    props = spec["components"]["schemas"]["Thing"]["properties"]
    _rename_key(props, "tags", text)


def _pos_required_property_name(spec, text):
    thing = spec["components"]["schemas"]["Thing"]
    _rename_key(thing["properties"], "name", text)
    thing["required"] = [text]


def _pos_enum_value(spec, text):
    spec["components"]["schemas"]["Size"]["enum"] = ["small", text]


def _pos_inline_enum_value(spec, text):
    spec["components"]["schemas"]["Thing"]["properties"]["status"]["enum"] = ["active", text]


def _pos_param_enum_value(spec, text):
    spec["paths"]["/things/{thingId}"]["get"]["parameters"][2]["schema"]["enum"] = ["asc", text]


def _pos_disc_value(spec, text):
    spec["components"]["schemas"]["Square"]["properties"]["kind"]["enum"] = [text]
    m = spec["components"]["schemas"]["Shape"]["discriminator"]["mapping"]
    _rename_key(m, "square", text)


def _param(spec, i):
    return spec["paths"]["/things/{thingId}"]["get"]["parameters"][i]


POSITIONS = {
    "info.title": (lambda s, t: _set(s, ["info", "title"], t), None),
    "info.description": (lambda s, t: _set(s, ["info", "description"], t), None),
    "schema.description": (lambda s, t: _set(s, ["components", "schemas", "Thing", "description"], t), None),
    "enum_schema.description": (lambda s, t: _set(s, ["components", "schemas", "Size", "description"], t), None),
    "alias.description": (lambda s, t: _set(s, ["components", "schemas", "Alias", "description"], t), None),
    "union.description": (lambda s, t: _set(s, ["components", "schemas", "Shape", "description"], t), None),
    "property.description": (lambda s, t: _set(s, ["components", "schemas", "Thing", "properties", "name", "description"], t), None),
    "map_property.description": (lambda s, t: _set(s, ["components", "schemas", "Thing", "properties", "meta", "description"], t), None),
    "property.default": (lambda s, t: _set(s, ["components", "schemas", "Thing", "properties", "note", "default"], t), "default"),
    "property.name": (_pos_property_name, "wire_key"),
    "required_property.name": (_pos_required_property_name, "wire_key"),
    "enum.value": (_pos_enum_value, "enum:Size"),
    "inline_enum.value": (_pos_inline_enum_value, "inline_enum"),
    "param_enum.value": (_pos_param_enum_value, None),
    "discriminator.value": (_pos_disc_value, "disc_mapping"),
    "query_param.name": (lambda s, t: _param(s, 1).__setitem__("name", t), "query_name"),
    "header_param.name": (lambda s, t: _param(s, 3).__setitem__("name", "X-" + "".join(c for c in t if 32 < ord(c) < 127 and c not in '()<>@,;:\\"/[]?={} \t') or "X-a"), None),
    "cookie_param.name": (lambda s, t: _param(s, 4).__setitem__("name", t), "cookie_name"),
    "param.description": (lambda s, t: _param(s, 1).__setitem__("description", t), None),
    "operation.summary": (lambda s, t: _set(s, ["paths", "/things/{thingId}", "get", "summary"], t), None),
    "operation.description": (lambda s, t: _set(s, ["paths", "/things/{thingId}", "get", "description"], t), None),
    "stream_operation.summary": (lambda s, t: _set(s, ["paths", "/events", "get", "summary"], t), None),
    "operationId": (lambda s, t: _set(s, ["paths", "/things/{thingId}", "get", "operationId"], t), None),
    "tag": (lambda s, t: (_set(s, ["paths", "/things/{thingId}", "get", "tags"], [t]), _set(s, ["paths", "/things/{thingId}", "put", "tags"], [t])), None),
    "response.description": (lambda s, t: _set(s, ["paths", "/things/{thingId}", "get", "responses", "200", "description"], t), None),
    "info.version": (lambda s, t: _set(s, ["info", "version"], t), None),
    "empty_object.description": (lambda s, t: _set(s, ["components", "schemas", "Marker", "description"], t), None),
    "primitive_alias.description": (lambda s, t: _set(s, ["components", "schemas", "Count", "description"], t), None),
    "multi_content.summary": (lambda s, t: _set(s, ["paths", "/things", "post", "summary"], t), None),
    "multi_content.description": (lambda s, t: _set(s, ["paths", "/things", "post", "description"], t), None),
    "request_body.description": (lambda s, t: _set(s, ["paths", "/things", "post", "requestBody", "description"], t), None),
    "path_param.description": (lambda s, t: _param(s, 0).__setitem__("description", t), None),
    "error_response.description": (lambda s, t: _set(s, ["paths", "/things/{thingId}", "get", "responses", "404", "description"], t), None),
}


def valid_case(case: dict) -> bool:
    return case.get("position") in POSITIONS and isinstance(case.get("payload"), str) and len(case["payload"]) >= 1 and case.get("place", "mid") in PLACES


# positions whose text becomes identifiers: declaration order (fields and parameters are sorted by derived name) and file names
# follow the text, so the comparison is order-insensitive there: a histogram of AST node types per file
NAME_POSITIONS = {"property.name", "required_property.name", "query_param.name", "header_param.name", "cookie_param.name", "operationId", "tag"}


def skeleton(src: str, loose: bool = False) -> str:
    tree = ast.parse(src)

    class M(ast.NodeTransformer):
        def _strip_doc(self, node):
            if node.body and isinstance(node.body[0], ast.Expr) and isinstance(getattr(node.body[0], "value", None), ast.Constant) and isinstance(node.body[0].value.value, str):
                node.body = node.body[1:] or [ast.Pass()]

        def visit_Module(self, n):
            self._strip_doc(n)
            self.generic_visit(n)
            return n

        def visit_ClassDef(self, n):
            self._strip_doc(n)
            n.name = "_"
            self.generic_visit(n)
            return n

        def visit_FunctionDef(self, n):
            self._strip_doc(n)
            n.name = "_"
            self.generic_visit(n)
            return n

        visit_AsyncFunctionDef = visit_FunctionDef

        def visit_Name(self, n):
            n.id = "_"
            return n

        def visit_arg(self, n):
            n.arg = "_"
            self.generic_visit(n)
            return n

        def visit_Attribute(self, n):
            n.attr = "_"
            self.generic_visit(n)
            return n

        def visit_keyword(self, n):
            n.arg = "_" if n.arg else None
            self.generic_visit(n)
            return n

        def visit_alias(self, n):
            n.name, n.asname = "_", None
            return n

        def visit_ImportFrom(self, n):
            n.module = "_"
            self.generic_visit(n)
            return n

        def visit_Constant(self, n):
            n.value = type(n.value).__name__
            return n

        def visit_MatchValue(self, n):
            self.generic_visit(n)
            return n

    t = M().visit(tree)
    if loose:
        import collections

        hist = collections.Counter(type(n).__name__ + (":" + str(n.value) if isinstance(n, ast.Constant) else "") for n in ast.walk(t))
        return hashlib.sha1(repr(sorted(hist.items())).encode()).hexdigest()
    # import lines vary with names (sorted alphabetically): compare them as a sorted multiset
    body_imports = sorted(ast.dump(s) for s in t.body if isinstance(s, (ast.Import, ast.ImportFrom)))
    rest = [ast.dump(s) for s in t.body if not isinstance(s, (ast.Import, ast.ImportFrom))]
    return hashlib.sha1(("\n".join(body_imports) + "\n--\n" + "\n".join(rest)).encode()).hexdigest()


def _skeletons(res: genrun.GenResult, loose: bool = False) -> tuple[list[str], list[tuple[str, str]]]:
    sk, bad = [], []
    for rel in genrun.list_py_files(res):
        src = open(os.path.join(res.root, rel), encoding="utf-8", errors="surrogateescape").read()
        try:
            sk.append(skeleton(src, loose))
        except SyntaxError as e:
            bad.append((rel, f"{e.msg} (line {e.lineno}): {(e.text or '').strip()[:120]}"))
        except ValueError as e:  # e.g. source contains null bytes
            bad.append((rel, f"ValueError: {e}"))
    return sorted(sk), bad


_BASE: dict[str, list[str]] = {}


def _gen(spec: dict) -> genrun.GenResult:
    return genrun.generate({"spec": spec, "cfg": {"out": "cli", "core": None, "naming": "operationId", "fmt": "json", "prefix": genrun.unique_prefix()}})


def baseline(position: str) -> list[str] | None:
    if position not in _BASE:
        spec = template()
        POSITIONS[position][0](spec, "abxcd")
        res = _gen(spec)
        try:
            _BASE[position] = _skeletons(res, position in NAME_POSITIONS)[0] if res.ok else None
        finally:
            genrun.cleanup(res)
    return _BASE[position]


def evaluate(case: dict) -> list[Violation]:
    return run_case(case)[0]


def run_case(case: dict) -> tuple[list[Violation], bool, str]:
    position, payload = case["position"], case["payload"]
    place = case.get("place", "mid")
    text = PLACES[place](payload)
    spec = template()
    apply, semantic = POSITIONS[position]
    norm = "".join(c for c in text.lower() if c.isalnum())
    taken = {"query_param.name": {"sort", "thingid"}, "cookie_param.name": set(), "header_param.name": set(),
             "operationId": {"putthing", "creatething", "streamevents"}, "tag": {"events", "default"}}.get(position, set())
    if norm in taken:
        return [], False, "skipped_equals_existing_name"
    try:
        apply(spec, text)
    except PayloadEqualsExistingName:
        return [], False, "skipped_equals_existing_name"
    res = _gen(spec)
    viols: list[Violation] = []
    try:
        if not res.ok:
            return [], False, "rejected"
        sk, bad = _skeletons(res, position in NAME_POSITIONS)
        from .c01 import role_of

        for rel, err in bad[:3]:
            viols.append(Violation(("file_does_not_parse", position, role_of(rel)), f"payload={payload!r} place={place}: {rel}: {err}"))
        reached = False
        for rel in genrun.list_py_files(res):
            src = open(os.path.join(res.root, rel), encoding="utf-8", errors="replace").read()
            if payload in src or payload.encode("unicode_escape").decode() in src or json.dumps(payload)[1:-1] in src:
                reached = True
                break
        base = baseline(position)
        if not bad and base is not None and sk != base:
            viols.append(Violation(("structure_differs_from_benign", position), f"payload={payload!r} place={place}: {len(sk)} files vs {len(base)}; differing skeletons: {len(set(sk) ^ set(base))}"))
        if not bad and semantic:
            viols.extend(_semantic(res, spec, position, semantic, text))
        return viols, reached, "ok"
    finally:
        genrun.cleanup(res)


def _semantic(res, spec, position, kind, text) -> list[Violation]:
    import enum as _enum

    out = []
    try:
        with drive.Session(res, spec, transport="custom") as s:
            models = s.models_mod
            if kind.startswith("enum:"):
                cls = getattr(models, kind.split(":")[1], None)
                if cls is not None and text not in [m.value for m in cls]:
                    out.append(Violation(("literal_changed", position), f"enum values {[m.value for m in cls]!r} lack {text!r}"))
            elif kind == "inline_enum":
                vals = [m.value for n in getattr(models, "__all__", []) for c in [getattr(models, n)] if isinstance(c, type) and issubclass(c, _enum.Enum) for m in c]
                if text not in vals:
                    out.append(Violation(("literal_changed", position), f"no enum member has value {text!r}: {vals!r}"[:400]))
            elif kind == "wire_key":
                keys = getattr(getattr(models.Thing, "Meta", None), "key_transform_with_load", {})
                if text not in keys:
                    out.append(Violation(("literal_changed", position), f"Meta keys {list(keys)!r} lack {text!r}"))
            elif kind == "default":
                import dataclasses

                d = {f.name: f.default for f in dataclasses.fields(models.Thing)}.get("note")
                if d != text:
                    out.append(Violation(("literal_changed", position), f"default {d!r} != {text!r}"))
            elif kind == "disc_mapping":
                import importlib

                shape_mod = importlib.import_module(models.__name__ + ".shape")
                mapping = shape_mod.ShapeDiscriminator().get_mapping()
                if text not in mapping:
                    out.append(Violation(("literal_changed", position), f"mapping keys {list(mapping)!r} lack {text!r}"))
            elif kind in ("query_name", "cookie_name"):
                found, _ = s.discover()
                where = found.get(("GET", "/things/{thingId}"))
                if where:
                    fn = s.methods(s.tag_clients()[where[0][0]])[where[0][1]]
                    kw = s.probe_kwargs(fn)
                    import inspect

                    for n, p in inspect.signature(fn).parameters.items():
                        if n not in kw and p.default is None:
                            kw[n] = "v"
                    o = s.call(fn, kw)
                    raw = o.raw_kwargs[0] if o.raw_kwargs else {}
                    names = list((raw.get("params") or {}).keys()) if kind == "query_name" else list((raw.get("cookies") or {}).keys())
                    if raw and text not in names:
                        out.append(Violation(("literal_changed", position), f"{kind}: names sent {names!r} lack {text!r}"))
    except (ImportError, SyntaxError, NameError, TypeError, AttributeError, ValueError) as e:
        out.append(Violation(("package_unusable_with_payload", position, type(e).__name__), f"{e!r}"[:300]))
    return out


SHRINK = False


def shards(tier: str, seed: int) -> list[dict]:
    out = [{"mode": "matrix", "position": p, "tier": tier} for p in POSITIONS]
    n_h, per = (16, 25) if tier == "quick" else (48, 250)
    out += [{"mode": "hyp", "seed": seed * 1000 + i, "n": per} for i in range(n_h)]
    return out


TOKENS = ['"', "'", "\\", '"""', "\n", "\r", "\t", " ", "#", "{", "}", "%", ":", "(", ")", "@overload", "async def f(self):", "def ", "x", "é", "\u2028", "\x85", "\x00", "\x0c",
          "\\n", "\\x", "\\N{", "\\u", "import os", "=", ",", "[", "]", "\U0001F600", "..."]


def run_shard(shard: dict) -> dict:
    from .. import runner

    col = Collector()
    if shard["mode"] == "matrix":
        pos = shard["position"]
        todo = [{"position": pos, "payload": p, "place": "mid"} for p in PAYLOADS]
        edge = EDGE_PAYLOADS if shard.get("tier") == "quick" else PAYLOADS
        todo += [{"position": pos, "payload": p, "place": pl} for pl in PLACES if pl != "mid" for p in edge]
        for i, case in enumerate(todo):
            viols, reached, outcome = run_case(case)
            col.record(case, viols, reached, ["matrix", "place_" + case["place"], "outcome_" + outcome, "reached" if reached else "not_reached"])
            if i % 10 == 0:
                runner.truncate_generator_logs()
        col.extra["matrix_complete"] = True
        return col.to_dict()
    from hypothesis import strategies as st

    payload = st.one_of(st.text(st.characters(blacklist_categories=("Cs",)), min_size=1, max_size=12),
                        st.lists(st.sampled_from(TOKENS), min_size=1, max_size=5).map("".join))
    strat = st.fixed_dictionaries({"position": st.sampled_from(sorted(POSITIONS)), "payload": payload, "place": st.sampled_from(sorted(PLACES))})
    for case in hyp.draw_cases(strat, shard["n"], shard["seed"]):
        viols, reached, outcome = run_case(case)
        col.record(case, viols, reached, ["random_text", "place_" + case["place"], "outcome_" + outcome])
    return col.to_dict()
