"""C05 — response fidelity: declared success bodies come back as typed values.

Case   : {"spec", "cfg", "responses": [{"method", "path", "status", "media"|None, "body": JSON doc | text | [events]}]}
Oracle : the fake server answers with that status/body/Content-Type; the call must return a value that is an instance of the
         annotated return type and whose re-serialisation equals the body (C03 relation); a declared response without content
         returns None; text/* returns the text; binary returns the bytes (as a byte stream: concatenation equal); event-stream /
         ndjson yield, in order, exactly the JSON events sent.
"""

from __future__ import annotations

import dataclasses
import enum
import inspect
import json
import typing

from .. import domain, drive, genrun, hyp, specgen
from ..refmodel import instances as I
from ..runner import Collector, Violation

PROPERTY_ID = "C05"
LEVEL = "exploration"
RULE = (
    "case = (constructed document, layout, for every operation and every declared 2xx response x declared media type: up to "
    "3 conforming bodies [JSON documents from the schema; text; bytes; 0..4 JSON events for event-stream/ndjson]). "
    "Non-trivial = the response is not a plain object model (array, alias, primitive, map, text, binary, stream, secondary "
    "2xx, several media types, no content). distinct = distinct (operation, status, media, body)."
)
ASSUMPTIONS = [
    "streamed payloads are one JSON object per event/record (what the generated handler documents: json.loads per event)",
    "union-typed response schemas belong to C14 and are not generated; `default` values are not generated",
    "the value is serialised back with the package's own unstructure_to_dict for comparison (dataclasses, lists, dicts, enums)",
]
MIN_NONTRIVIAL = {"quick": 300, "thorough": 4000}
STREAM_MEDIA = {"text/event-stream", "application/x-ndjson"}
BINARY_MEDIA = {"application/octet-stream", "image/png"}


def valid_case(case: dict) -> bool:
    if not specgen.valid_case(case):
        return False
    ops = {(o["method"], o["path"]): o for o in drive.spec_operations(case["spec"])}
    schemas = (case["spec"].get("components") or {}).get("schemas") or {}
    for r in case.get("responses") or []:
        o = ops.get((r.get("method"), r.get("path")))
        if o is None:
            return False
        resp = (o["op"].get("responses") or {}).get(str(r.get("status")))
        if resp is None:
            return False
        content = resp.get("content") or {}
        if r.get("media") is None:
            if content:
                return False
            continue
        if r["media"] not in content:
            return False
        sch = content[r["media"]].get("schema", {})
        if r["media"] == "application/json" and not I.conforms(r.get("body"), sch, schemas):
            return False
        if r["media"] in STREAM_MEDIA and not (isinstance(r.get("body"), list) and all(isinstance(e, dict) for e in r["body"])):
            return False
        if r["media"] in BINARY_MEDIA | {"text/plain"} and not isinstance(r.get("body"), str):
            return False
    return True


def _isinstance(value, ann, depth=0) -> bool:
    if depth > 8 or ann is typing.Any or ann is inspect.Signature.empty or ann is None and value is None:
        return True
    if ann is type(None):
        return value is None
    origin = typing.get_origin(ann)
    if origin is typing.Annotated:
        return _isinstance(value, typing.get_args(ann)[0], depth + 1)
    if origin is typing.Union or str(origin) == "<class 'types.UnionType'>":
        return any(_isinstance(value, a, depth + 1) for a in typing.get_args(ann))
    if origin in (list, typing.List):
        (a,) = typing.get_args(ann) or (typing.Any,)
        return isinstance(value, list) and all(_isinstance(v, a, depth + 1) for v in value)
    if origin is dict:
        args = typing.get_args(ann)
        return isinstance(value, dict) and (len(args) < 2 or all(_isinstance(v, args[1], depth + 1) for v in value.values()))
    if origin is typing.Literal:
        return value in typing.get_args(ann)
    if isinstance(ann, type):
        if ann is float:
            return isinstance(value, (int, float)) and not isinstance(value, bool)
        if ann is int:
            return isinstance(value, int) and not isinstance(value, bool)
        return isinstance(value, ann)
    return True


def _to_json(value, conv):
    if dataclasses.is_dataclass(value) or isinstance(value, (list, dict, enum.Enum)):
        return json.loads(json.dumps(conv.unstructure_to_dict(value), default=str))
    if isinstance(value, (bytes, bytearray)):
        return bytes(value).decode("latin-1")
    return json.loads(json.dumps(value, default=str))


def check(res: genrun.GenResult, case: dict) -> tuple[list[Violation], list[tuple[dict, bool, list[str]]]]:
    import httpx

    spec = case["spec"]
    schemas = (spec.get("components") or {}).get("schemas") or {}
    viols: list[Violation] = []
    accounted = []
    ops = {(o["method"], o["path"]): o for o in drive.spec_operations(spec)}
    with drive.Session(res, spec, transport="bundled") as s:
        found, problems = s.discover()
        for r in case["responses"]:
            o = ops[(r["method"], r["path"])]
            where = found.get((r["method"], r["path"]))
            if not where:
                continue
            attr, mname = where[0]
            fn = s.methods(s.tag_clients()[attr])[mname]
            kw = s.probe_kwargs(fn)
            for n in [n for n in kw if s._is_body_like(n)][1:]:
                kw.pop(n, None)
            status, media, body = int(r["status"]), r["media"], r.get("body")
            declared_2xx = sorted(c for c in (o["op"].get("responses") or {}) if c.isdigit() and c.startswith("2"))
            resp_decl = o["op"]["responses"][str(status)]
            n_media = len(resp_decl.get("content") or {})
            sch = (resp_decl.get("content") or {}).get(media, {}).get("schema", {}) if media else {}
            labels = ["media_" + str(media), "secondary_2xx" if declared_2xx and str(status) != declared_2xx[0] else "primary_2xx"]
            if n_media > 1:
                labels.append("multi_media")
            kind = I.kind_of(sch, schemas) if media == "application/json" else str(media)
            nontriv = not (media == "application/json" and kind == "object" and "secondary_2xx" not in labels and n_media == 1)

            def respond(request, status=status, media=media, body=body, r=r):
                if media is None:
                    return httpx.Response(status)
                if media == "application/json":
                    return httpx.Response(status, content=json.dumps(body).encode(), headers={"content-type": "application/json"})
                if media == "text/event-stream":
                    style = r.get("sse_style", "compact")
                    if style == "pretty":  # one event spread over several data: lines (joined with \n by a conforming reader)
                        payload = "".join("".join(f"data: {ln}\n" for ln in json.dumps(e, indent=1).split("\n")) + "\n" for e in body).encode()
                    elif style == "crlf_with_fields":
                        payload = "".join(f": keep-alive\r\nevent: update\r\nid: {i}\r\ndata: {json.dumps(e)}\r\n\r\n" for i, e in enumerate(body)).encode()
                    else:
                        payload = "".join(f"data: {json.dumps(e)}\n\n" for e in body).encode()
                    return httpx.Response(status, content=payload, headers={"content-type": media})
                if media == "application/x-ndjson":
                    payload = "".join(json.dumps(e) + "\n" for e in body).encode()
                    return httpx.Response(status, content=payload, headers={"content-type": media})
                if media in BINARY_MEDIA:
                    return httpx.Response(status, content=body.encode("latin-1"), headers={"content-type": media})
                return httpx.Response(status, content=body.encode("utf-8"), headers={"content-type": media + "; charset=utf-8"})

            s.responder = respond
            out = s.call(fn, kw)
            accounted.append(({"method": r["method"], "path": r["path"], "status": status, "media": media, "body": body}, nontriv, labels))
            where_sig = ("secondary" if "secondary_2xx" in labels else "primary", "multi_media" if n_media > 1 else "single_media")
            if not out.requests:
                continue  # could not be driven (C04's business)
            if out.exc is not None:
                viols.append(Violation(("raised", type(out.exc).__name__, str(media), kind) + where_sig, f"{r['method']} {r['path']} {status} {media}: {out.exc!r} body={json.dumps(body)[:300]}"[:900]))
                continue
            try:
                ann = typing.get_type_hints(getattr(fn, "__func__", fn)).get("return", typing.Any)
            except Exception:
                ann = typing.Any
            if media is None:
                if out.items is not None:
                    if out.items:
                        viols.append(Violation(("no_content_yielded_items",) + where_sig, f"{out.items!r}"[:300]))
                elif out.value is not None:
                    viols.append(Violation(("no_content_returned_value",) + where_sig, f"{out.value!r}"[:300]))
                continue
            if media in STREAM_MEDIA:
                if out.items is None:
                    viols.append(Violation(("stream_not_iterable", media) + where_sig, f"returned {out.value!r}"[:300]))
                    continue
                got = [_to_json(i, s.conv_mod) for i in out.items]
                if got != body:
                    viols.append(Violation(("stream_items_differ", media) + where_sig, f"sent {json.dumps(body)[:300]} got {json.dumps(got)[:300]}"))
                continue
            if media in BINARY_MEDIA:
                data = b"".join(out.items) if out.items is not None else out.value
                if not isinstance(data, (bytes, bytearray)) or bytes(data) != body.encode("latin-1"):
                    viols.append(Violation(("binary_differs", media) + where_sig, f"sent {body!r} got {data!r}"[:400]))
                continue
            if media.startswith("text/"):
                if out.value != body:
                    viols.append(Violation(("text_differs",) + where_sig, f"sent {body!r} got {out.value!r}"[:400]))
                continue
            # JSON
            value = out.value
            if out.items is not None:
                viols.append(Violation(("json_response_is_stream", kind) + where_sig, f"items={out.items!r}"[:300]))
                continue
            if not _isinstance(value, ann):
                viols.append(Violation(("not_instance_of_return_annotation", kind) + where_sig, f"{r['method']} {r['path']} {status}: annotation {ann!r} value {value!r}"[:600]))
                continue
            try:
                back = _to_json(value, s.conv_mod)
            except Exception as e:
                viols.append(Violation(("reserialise_raised", type(e).__name__, kind) + where_sig, f"{e!r}"[:400]))
                continue
            d = I.diff(body, back, sch, schemas)
            if d:
                viols.append(Violation(("json_value_differs", kind, d[d.rfind("{"):] if "{" in d else "") + where_sig, f"{r['method']} {r['path']} {status}: {d} sent={json.dumps(body)[:300]} back={json.dumps(back)[:300]}"))
    return viols, accounted


def case_strategy(gate: specgen.Gate):
    from hypothesis import strategies as st

    ev = st.dictionaries(st.sampled_from(["id", "name", "ok", "é"]), st.one_of(st.integers(-5, 5), st.text(max_size=5), st.booleans()), max_size=3)

    @st.composite
    def cases(draw):
        spec = draw(specgen.specs(gate, max_schemas=3, max_ops=3, min_ops=1))
        cfg = draw(specgen.configs(gate))
        schemas = (spec.get("components") or {}).get("schemas") or {}
        out = []
        for o in drive.spec_operations(spec):
            for code, resp in (o["op"].get("responses") or {}).items():
                if not (code.isdigit() and code.startswith("2")):
                    continue
                content = resp.get("content") or {}
                if not content:
                    out.append({"method": o["method"], "path": o["path"], "status": int(code), "media": None, "body": None})
                    continue
                for media, mn in content.items():
                    sch = mn.get("schema", {})
                    for _ in range(draw(st.integers(1, 3))):
                        if media == "application/json":
                            if not I.satisfiable(sch, schemas):
                                continue
                            body = draw(I.instances(sch, schemas, allow_null=True).filter(lambda d: I.conforms(d, sch, schemas) and d is not None))
                        elif media in STREAM_MEDIA:
                            body = draw(st.lists(ev, max_size=4))
                        elif media in BINARY_MEDIA:
                            body = draw(st.binary(max_size=30)).decode("latin-1")
                        else:
                            body = draw(st.sampled_from(["hello", "", "é漢", "line1\nline2", "{\"not\": \"json?\"}", "123", "null"]))
                        rec = {"method": o["method"], "path": o["path"], "status": int(code), "media": media, "body": body}
                        if media == "text/event-stream":
                            rec["sse_style"] = draw(st.sampled_from(["compact", "pretty", "crlf_with_fields"]))
                        out.append(rec)
        return {"spec": spec, "cfg": cfg, "responses": out}

    return cases()


def evaluate(case: dict) -> list[Violation]:
    res = genrun.generate({**case, "cfg": {**case["cfg"], "prefix": genrun.unique_prefix()}})
    try:
        if not res.ok or genrun.compile_all(res):
            return []
        try:
            return check(res, case)[0]
        except (ImportError, SyntaxError, NameError):
            return []
    finally:
        genrun.cleanup(res)


def shards(tier: str, seed: int) -> list[dict]:
    n_sh, per = (16, 70) if tier == "quick" else (48, 800)
    return [{"seed": seed * 1000 + i, "n": per} for i in range(n_sh)]


def run_shard(shard: dict) -> dict:
    from .. import runner

    col = Collector()
    gate = specgen.Gate(domain.excluded("C01", "C03", "C04", "C05", "C07", extra={"default_value", "union", "disc_union", "inline_union", "resp_inline_union"}))
    cases = hyp.draw_cases(case_strategy(gate), shard["n"], shard["seed"])
    col.excluded.update(gate.excluded)
    for i, case in enumerate(cases):
        res = genrun.generate({**case, "cfg": {**case["cfg"], "prefix": genrun.unique_prefix()}})
        try:
            if not res.ok:
                col.rejected += 1
                continue
            if genrun.compile_all(res):
                col.classes["skipped_c01_compile"] += 1
                continue
            try:
                viols, accounted = check(res, case)
            except (ImportError, SyntaxError, NameError):
                col.classes["skipped_c01_import"] += 1
                continue
            for acc, nt, labs in accounted:
                col.record(acc, [], nt, labs)
            for v in viols:
                col.add_violation(v, case)
        finally:
            genrun.cleanup(res)
        if i % 40 == 0:
            runner.truncate_generator_logs()
    return col.to_dict()
