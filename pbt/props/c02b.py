"""C02 part (b) — emitted dataclasses vs. the document (filled in together with the C03 machinery)."""
from ..runner import Collector


def shards(tier, seed):
    return []


def run_shard(shard):
    return Collector().to_dict()


def evaluate(case):
    return []
