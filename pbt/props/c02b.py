"""C02 part (b) — the emitted dataclasses against the document.

For every named object schema (own + allOf-inherited properties, reference resolver = pbt/refmodel/instances.flatten):
  * exactly one model class; every declared property has exactly one dataclass field, bound to the ORIGINAL JSON key through
    Meta.key_transform_with_load (a bijection onto the declared keys), no extra fields;
  * required  <=>  the field has no default;
  * coarse kind of the annotation: str/int/float/bool/list/dict-or-wrapper/model/enum (datetime/date/UUID/bytes count as string).
Domain: the union-free clean domain of C03 (shared strategy), names incl. colliding ones (createdAt / created_at / created_at_2).
"""

from __future__ import annotations

import dataclasses
import enum
import typing

from .. import genrun, hyp, specgen
from ..refmodel import instances as I
from ..runner import Collector, Violation
from . import c03


def _coarse(tp, depth=0) -> str:
    import datetime
    import uuid

    if depth > 6:
        return "?"
    origin = typing.get_origin(tp)
    if origin is typing.Annotated:
        return _coarse(typing.get_args(tp)[0], depth + 1)
    if origin is typing.Union or str(origin) == "<class 'types.UnionType'>":
        args = [a for a in typing.get_args(tp) if a is not type(None)]
        if len(args) == 1:
            return _coarse(args[0], depth + 1)
        return "union"
    if origin in (list, typing.List):
        return "array"
    if origin is dict:
        return "map"
    if tp is typing.Any:
        return "any"
    if isinstance(tp, type):
        if issubclass(tp, enum.Enum):
            return "enum"
        if dataclasses.is_dataclass(tp):
            fields = {f.name for f in dataclasses.fields(tp)}
            return "map" if fields == {"_data"} else "object"
        if tp is bool:
            return "boolean"
        if tp is int:
            return "integer"
        if tp is float:
            return "number"
        if tp in (str, bytes, datetime.datetime, datetime.date, uuid.UUID):
            return "string"
    return "?"


def check_models(res: genrun.GenResult, spec: dict) -> tuple[list[Violation], int, int]:
    schemas = (spec.get("components") or {}).get("schemas") or {}
    viols: list[Violation] = []
    ev = nt = 0
    with genrun.load_package(res):
        models = genrun.import_module_of(res, "models")
        for name, node in schemas.items():
            # every named schema - object, enum, alias - has something of its own in the models package
            if "$ref" not in node and c03.model_class(models, name) is None:
                viols.append(Violation(("model", "named_schema_not_emitted", I.kind_of(node, schemas)), f"{name}: nothing exported for it by {sorted(getattr(models, '__all__', []))[:12]}"))
        for name, node in schemas.items():
            f = I.flatten(node, schemas)
            n = I.resolve(node, schemas)
            if f is None or "oneOf" in n or "anyOf" in n or "$ref" in node:
                continue
            ev += 1
            if "allOf" in node or sum(1 for p in f["properties"].values() if "$ref" in str(p)) >= 2:
                nt += 1
            cls = c03.model_class(models, name)
            if cls is None or not dataclasses.is_dataclass(cls):
                viols.append(Violation(("model", "missing_or_not_dataclass"), f"{name}: {cls!r}"))
                continue
            fields = {fl.name: fl for fl in dataclasses.fields(cls)}
            meta = getattr(cls, "Meta", None)
            load = dict(getattr(meta, "key_transform_with_load", {}) or {})
            if not f["properties"]:
                continue
            # every declared key maps to exactly one field
            inv: dict[str, list[str]] = {}
            for wire, py in load.items():
                inv.setdefault(py, []).append(wire)
            for key in f["properties"]:
                if key not in load:
                    viols.append(Violation(("model", "property_without_field"), f"{name}.{key}: Meta load map {load} fields {sorted(fields)}"))
                    break
                if load[key] not in fields:
                    viols.append(Violation(("model", "mapped_field_missing"), f"{name}.{key} -> {load[key]} not in {sorted(fields)}"))
                    break
            else:
                dup = {py: w for py, w in inv.items() if len(w) > 1}
                if dup:
                    viols.append(Violation(("model", "two_keys_one_field"), f"{name}: {dup}"))
                    continue
                extra = set(fields) - {load[k] for k in f["properties"]}
                if extra:
                    viols.append(Violation(("model", "extra_field"), f"{name}: {sorted(extra)}"))
                    continue
                try:
                    hints = typing.get_type_hints(cls, include_extras=True)
                except Exception as e:
                    viols.append(Violation(("model", "type_hints_unresolvable", type(e).__name__), f"{name}: {e}"))
                    continue
                for key, pnode in f["properties"].items():
                    fl = fields[load[key]]
                    has_default = fl.default is not dataclasses.MISSING or fl.default_factory is not dataclasses.MISSING
                    if (key in f["required"]) == has_default:
                        viols.append(Violation(("model", "required_mismatch", "required_has_default" if has_default else "optional_without_default"),
                                               f"{name}.{key}: required={key in f['required']} default={fl.default!r}"))
                        break
                    want = I.kind_of(pnode, schemas)
                    got = _coarse(hints.get(fl.name))
                    ok = (want == got or want == "any" or got == "any"
                          or (want == "object" and got in ("object", "map"))  # property-less object -> generic mapping
                          or (want == "map" and got in ("map", "object")))
                    if not ok and got != "?":
                        viols.append(Violation(("model", "kind_mismatch", want, got), f"{name}.{key}: schema {I.describe(pnode, schemas)} annotation {hints.get(fl.name)!r}"))
                        break
    return viols, ev, nt


def evaluate(case: dict) -> list[Violation]:
    res = genrun.generate({**case, "cfg": {**case["cfg"], "prefix": genrun.unique_prefix()}})
    try:
        if not res.ok or genrun.compile_all(res):
            return []
        try:
            return check_models(res, case["spec"])[0]
        except (ImportError, SyntaxError, TypeError, NameError, AttributeError) as e:
            return [Violation(("model", "models_package_unusable", type(e).__name__), f"{e!r}"[:300])]
    finally:
        genrun.cleanup(res)


def valid_case(case: dict) -> bool:
    return specgen.valid_case(case)


def shards(tier: str, seed: int) -> list[dict]:
    n_sh, per = (16, 150) if tier == "quick" else (32, 500)
    return [{"mode": "b_models", "seed": seed * 1000 + 500 + i, "n": per} for i in range(n_sh)]


def run_shard(shard: dict) -> dict:
    col = Collector()
    gate = specgen.Gate(c03.excluded_features("C02"))
    cases = hyp.draw_cases(specgen.cases(gate, max_ops=1, min_ops=0), shard["n"], shard["seed"])
    col.excluded.update(gate.excluded)
    for case in cases:
        case = {**case, "part": "b"}
        res = genrun.generate({**case, "cfg": {**case["cfg"], "prefix": genrun.unique_prefix()}})
        try:
            if not res.ok:
                col.rejected += 1
                continue
            if genrun.compile_all(res):
                col.classes["skipped_c01_compile"] += 1
                continue
            try:
                viols, ev, nt = check_models(res, case["spec"])
            except (ImportError, SyntaxError, TypeError, NameError, AttributeError) as e:
                # C01's open triggers are excluded from this domain: a models package that cannot be imported here means some schema
                # has no usable model for a reason nobody has listed
                col.record(case, [Violation(("model", "models_package_unusable", type(e).__name__), f"{e!r}"[:300])], False, ["b_models", "b_package_unusable"])
                continue
            col.record(case, viols, nt > 0, ["b_models"], sample={"part": "b", "schemas": (case["spec"].get("components") or {}).get("schemas")})
        finally:
            genrun.cleanup(res)
    return col.to_dict()
