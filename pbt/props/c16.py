"""C16 — bundled converter obeys round-trip laws for any mapped dataclass; serialiser terminates on cyclic graphs.

Case   : {"steps": [ {"type": <type tree>, "doc": <conforming wire JSON>, "corrupt": path|None} ... ], "graph": <cyclic instance graph>|None}
         All steps of a case run, in order, against ONE fresh copy of the runtime modules (cattrs_converter.py + utils.py of
         the working tree exec'd under a unique package name => an untouched module-global converter), so history effects
         (hook registration order, caches keyed on names) manifest inside a case and the case replays on its own.
Oracle : per step  (1) unstructure(structure(doc)) == doc  up to "absent optional may come back as null"
                   (2) structure(unstructure(inst)) == inst
                   (3) == the result of the same call on a copy of the module that has seen nothing else (history independence)
                   (4) a structurally impossible leaf => ValueError whose text names the field (python name or wire key)
         graph     (5) DataclassSerializer.serialize terminates (no RecursionError), json.dumps-able, no None-valued keys;
                       for acyclic graphs == unstructure_to_dict minus nulls.
"""

from __future__ import annotations

import dataclasses
import datetime as _dt
import enum
import importlib
import json
import os
import sys
import types
import typing
from typing import Any

from ..runner import REPO, Collector, Violation

PROPERTY_ID = "C16"
LEVEL = "exploration"
RULE = (
    "case = history of 1..5 (dataclass type tree, conforming wire JSON[, corrupted leaf]) steps run against one fresh copy of "
    "the converter, plus optionally an instance graph (chain, self-loop, 2-cycle through a list, ring, diamond) for the "
    "serialiser. Type trees: depth <= 4 over str/int/float/bool/bytes/datetime/date/Enum/Any leaves, List, dict[str,.], "
    "X | None, nested dataclasses, with/without Meta key maps that are random bijections (keyword-like keys, keys equal "
    "after case-folding, keys equal to another field's Python name); dataclass names come from a small pool so later steps "
    "re-use names of earlier, differently shaped types. Non-trivial = a type tree of depth >= 2 with >= 1 renamed field, or "
    "a graph with a reference cycle."
)
ASSUMPTIONS = [
    "the laws are checked on the working tree's core/cattrs_converter.py and core/utils.py, which C12 shows are copied byte-for-byte into every client",
    "float leaves are finite; datetime strings are RFC 3339 with 'Z' or numeric offset and compared as instants+offset; bytes are canonical base64",
    "wire-key maps are bijections and every generated dataclass field has a type annotation resolvable in its module (what the generator emits)",
    "unions are left to C14",
]
MIN_NONTRIVIAL = {"quick": 500, "thorough": 5000}

CORE_DIR = os.path.join(REPO, "src", "pyopenapi_gen", "core")
_fresh_n = 0


def fresh_core():
    """(converter module, utils module) loaded from the working tree under a unique package name."""
    global _fresh_n
    _fresh_n += 1
    pkg_name = f"_c16core_{os.getpid()}_{_fresh_n}"
    pkg = types.ModuleType(pkg_name)
    pkg.__path__ = [CORE_DIR]  # type: ignore[attr-defined]
    pkg.__package__ = pkg_name
    sys.modules[pkg_name] = pkg
    conv = importlib.import_module(pkg_name + ".cattrs_converter")
    utils = importlib.import_module(pkg_name + ".utils")
    return pkg_name, conv, utils


def drop_core(pkg_name: str) -> None:
    for m in list(sys.modules):
        if m == pkg_name or m.startswith(pkg_name + "."):
            del sys.modules[m]


# ---------------------------------------------------------------------------------------------
# type trees -> python types

_types_n = 0
ENUMS: dict[str, type] = {}


def _enum_type(members: list[str]) -> type:
    key = "|".join(members)
    if key not in ENUMS:
        ENUMS[key] = enum.Enum("Color" + str(len(ENUMS)), {f"M{i}": v for i, v in enumerate(members)}, type=str)  # type: ignore[misc]
    return ENUMS[key]


def build_type(t: dict, module: types.ModuleType) -> Any:
    k = t["k"]
    if k == "str":
        return str
    if k == "int":
        return int
    if k == "float":
        return float
    if k == "bool":
        return bool
    if k == "bytes":
        return bytes
    if k == "datetime":
        return _dt.datetime
    if k == "date":
        return _dt.date
    if k == "any":
        return Any
    if k == "enum":
        return _enum_type(t["members"])
    if k == "list":
        return typing.List[build_type(t["of"], module)]  # type: ignore[misc]
    if k == "dict":
        return dict[str, build_type(t["of"], module)]  # type: ignore[misc]
    if k == "opt":
        return build_type(t["of"], module) | None
    if k == "dc":
        fields = []
        for f in t["fields"]:
            ft = build_type(f["t"], module)
            if f["required"]:
                fields.append((f["py"], ft))
            else:
                inner = f["t"]["k"]
                if inner == "list":
                    fields.append((f["py"], ft | None, dataclasses.field(default_factory=list)))
                elif inner == "dict":
                    fields.append((f["py"], ft | None, dataclasses.field(default_factory=dict)))
                else:
                    fields.append((f["py"], ft | None, dataclasses.field(default=None)))
        fields.sort(key=lambda x: len(x) > 2)  # required first
        ns = {}
        if t.get("meta"):
            load = {f["wire"]: f["py"] for f in t["fields"]}
            dump = {f["py"]: f["wire"] for f in t["fields"]}
            ns["Meta"] = type("Meta", (), {"key_transform_with_load": load, "key_transform_with_dump": dump})
        cls = dataclasses.make_dataclass(t["name"], fields, namespace=ns)
        cls.__module__ = module.__name__
        setattr(module, t["name"], cls)
        return cls
    raise ValueError(k)


def wire_key(t: dict, f: dict) -> str:
    return f["wire"] if t.get("meta") else f["py"]


def depth(t: dict) -> int:
    k = t["k"]
    if k in ("list", "dict", "opt"):
        return depth(t["of"]) + (0 if k == "opt" else 1)
    if k == "dc":
        return 1 + max([depth(f["t"]) for f in t["fields"]] + [0])
    return 0


def has_rename(t: dict) -> bool:
    k = t["k"]
    if k in ("list", "dict", "opt"):
        return has_rename(t["of"])
    if k == "dc":
        return (bool(t.get("meta")) and any(f["wire"] != f["py"] for f in t["fields"])) or any(has_rename(f["t"]) for f in t["fields"])
    return False


# ---------------------------------------------------------------------------------------------
# comparison helpers


def _norm_json(x: Any, t: dict) -> Any:
    """Normalise wire JSON w.r.t. the documented tolerances: null-valued optional keys dropped; empty container for an absent
    optional list/dict dropped; datetimes as (instant, offset); floats as float."""
    k = t["k"]
    if x is None:
        return None
    if k == "opt":
        return _norm_json(x, t["of"])
    if k == "datetime" and isinstance(x, str):
        try:
            d = _dt.datetime.fromisoformat(x.replace("Z", "+00:00"))
            return ["dt", d.timestamp() if d.tzinfo else d.isoformat(), str(d.utcoffset())]
        except ValueError:
            return x
    if k == "float" and isinstance(x, (int, float)) and not isinstance(x, bool):
        return float(x)
    if k == "list" and isinstance(x, list):
        return [_norm_json(i, t["of"]) for i in x]
    if k == "dict" and isinstance(x, dict):
        return {kk: _norm_json(v, t["of"]) for kk, v in x.items()}
    if k == "dc" and isinstance(x, dict):
        out = {}
        known = {wire_key(t, f): f for f in t["fields"]}
        for kk, v in x.items():
            f = known.get(kk)
            if f is None:
                out[kk] = v
                continue
            if v is None and not f["required"]:
                continue
            if not f["required"] and f["t"]["k"] in ("list", "dict") and v in ([], {}):
                continue
            if v is None and f["t"]["k"] == "opt":
                out[kk] = None
                continue
            out[kk] = _norm_json(v, f["t"])
        return out
    return x


def evaluate(case: dict) -> list[Violation]:
    viols: list[Violation] = []
    pkg_name, conv, utils = fresh_core()
    global _types_n
    _types_n += 1
    modname = f"_c16types_{os.getpid()}_{_types_n}"
    module = types.ModuleType(modname)
    sys.modules[modname] = module
    try:
        for si, step in enumerate(case.get("steps", [])):
            hist = "later_step" if si > 0 else "first_step"
            t = step["type"]
            try:
                T = build_type(t, module)
            except Exception as e:
                raise RuntimeError(f"harness: cannot build type {t}: {e!r}")
            doc = step["doc"]
            # reference copy that has seen nothing
            ref_pkg, ref_conv, _ = fresh_core()
            try:
                def run(c):
                    out = {}
                    try:
                        inst = c.structure_from_dict(doc, T)
                        out["inst"] = inst
                        out["wire"] = c.unstructure_to_dict(inst)
                        out["inst2"] = c.structure_from_dict(out["wire"], T)
                    except Exception as e:
                        out["exc"] = e
                    return out

                got = run(conv)
                ref = run(ref_conv)
            finally:
                drop_core(ref_pkg)
            if "exc" in got:
                e = got["exc"]
                kind = "decode_raised" if "inst" not in got else ("encode_raised" if "wire" not in got else "redecode_raised")
                viols.append(Violation((kind, type(e).__name__, hist), f"step {si}: {e!r}"[:1500] + f" type={json.dumps(t)[:600]} doc={json.dumps(doc)[:300]}"))
                if "exc" not in ref:
                    viols.append(Violation(("history_dependence", "raises_only_with_history"), f"step {si}: {e!r}"[:800]))
                continue
            if _norm_json(got["wire"], t) != _norm_json(doc, t):
                viols.append(Violation(("encode_decode_not_identity", hist), f"step {si}: doc={json.dumps(doc)[:500]} got={json.dumps(got['wire'], default=repr)[:500]} type={json.dumps(t)[:600]}"))
            if got["inst"] != got["inst2"]:
                viols.append(Violation(("decode_encode_not_identity", hist), f"step {si}: {got['inst']!r} != {got['inst2']!r}"[:1200]))
            if "exc" in ref or ref.get("wire") != got["wire"] or type(ref["inst"]) is not type(got["inst"]) or ref["inst"] != got["inst"]:
                viols.append(Violation(("history_dependence", "result_differs_from_fresh_module"), f"step {si}: with history {got.get('wire')!r} fresh {ref.get('wire', ref.get('exc'))!r}"[:1200]))
            # corrupted leaf
            cor = step.get("corrupt")
            if cor:
                bad = json.loads(json.dumps(doc))
                tgt = bad
                for p in cor["path"][:-1]:
                    tgt = tgt[p]
                tgt[cor["path"][-1]] = cor["value"]
                try:
                    conv.structure_from_dict(bad, T)
                    # accepted: the property only says how FAILURES are reported, not which inputs must fail
                except ValueError as e:
                    msg = str(e)
                    if not any(n and n in msg for n in cor["names"]):
                        viols.append(Violation(("corrupt_leaf_error_does_not_name_field", cor["kind"]), f"step {si}: names={cor['names']} msg={msg[:500]}"))
                except RecursionError as e:
                    viols.append(Violation(("corrupt_leaf_recursion",), repr(e)[:300]))
                except Exception as e:
                    viols.append(Violation(("corrupt_leaf_wrong_exception", type(e).__name__), f"step {si}: {e!r}"[:600]))
        g = case.get("graph")
        if g:
            viols.extend(_eval_graph(g, conv, utils, module))
        r = case.get("type_ring")
        if r:
            viols.extend(_eval_type_ring(r, conv, module))
        fam = case.get("family")
        if fam:
            viols.extend(_eval_family(fam, utils, module))
    finally:
        drop_core(pkg_name)
        sys.modules.pop(modname, None)
    return viols


# ---------------------------------------------------------------------------------------------
# mutually referencing dataclass TYPES (what the generator emits for schemas that refer to each other), finite documents


def _eval_type_ring(r: dict, conv, module) -> list[Violation]:
    """n mapped dataclasses R0..R(n-1); Ri.next_items refers to R(i+1 mod n) through List / dict / Optional (real class objects in the
    annotations, not strings).  The very first decode of these types in a fresh copy of the converter must already honour every
    class's wire-key map; decode/encode must be inverse; a fresh module copy must agree."""
    n = r["n"]
    names = [f"Ring{i}" for i in range(n)]
    classes = []
    for i in range(n):
        ns = {}
        if r["meta"]:
            ns["Meta"] = type("Meta", (), {"key_transform_with_load": {"labelName": "label_name", "next-items": "next_items", "class": "class_"},
                                          "key_transform_with_dump": {"label_name": "labelName", "next_items": "next-items", "class_": "class"}})
        kind = r["edges"][i]
        default = dataclasses.field(default_factory=list) if kind == "list" else (dataclasses.field(default_factory=dict) if kind == "dict" else dataclasses.field(default=None))
        cls = dataclasses.make_dataclass(names[i], [("label_name", str), ("class_", int), ("next_items", object, default)], namespace=ns)
        cls.__module__ = module.__name__
        setattr(module, names[i], cls)
        classes.append(cls)
    for i, cls in enumerate(classes):
        tgt = classes[(i + 1) % n]
        kind = r["edges"][i]
        ann = typing.List[tgt] if kind == "list" else (dict[str, tgt] if kind == "dict" else (tgt | None))  # type: ignore[valid-type]
        cls.__annotations__["next_items"] = ann
        cls.__dataclass_fields__["next_items"].type = ann
    lk, nk, ck = ("labelName", "next-items", "class") if r["meta"] else ("label_name", "next_items", "class_")

    def doc(i: int, d: int):
        kind = r["edges"][i % n]
        out = {lk: f"r{i}", ck: i}
        if d <= 0:
            out[nk] = [] if kind == "list" else ({} if kind == "dict" else None)
            if out[nk] is None:
                del out[nk]
        else:
            child = doc(i + 1, d - 1)
            out[nk] = [child, doc(i + 1, 0)] if kind == "list" else ({"k": child} if kind == "dict" else child)
        return out

    start = r["start"] % n
    d0 = doc(start, r["depth"])
    viols: list[Violation] = []
    ref_pkg, ref_conv, _ = fresh_core()
    try:
        def run(c):
            inst = c.structure_from_dict(d0, classes[start])
            return inst, c.unstructure_to_dict(inst)

        try:
            inst, wire = run(conv)
        except RecursionError as e:
            return [Violation(("type_ring", "recursion_error", "-".join(r["edges"])), repr(e)[:200])]
        except Exception as e:
            return [Violation(("type_ring", "first_decode_raised", type(e).__name__), f"{e!r}"[:600] + f" ring={json.dumps(r)} doc={json.dumps(d0)[:300]}")]
        def strip(x):  # an absent optional and an explicit null are the same document here (as in _norm_json)
            if isinstance(x, dict):
                return {k: strip(v) for k, v in x.items() if v is not None}
            if isinstance(x, list):
                return [strip(v) for v in x]
            return x

        if strip(wire) != strip(d0):
            viols.append(Violation(("type_ring", "encode_decode_not_identity"), f"doc={json.dumps(d0)[:400]} got={json.dumps(wire, default=repr)[:400]} ring={json.dumps(r)}"))
        try:
            inst2, wire2 = run(ref_conv)
            if strip(wire2) != strip(wire):
                viols.append(Violation(("type_ring", "history_dependence"), f"{wire!r} vs fresh {wire2!r}"[:600]))
        except Exception as e:
            viols.append(Violation(("type_ring", "fresh_module_raised", type(e).__name__), f"{e!r}"[:400]))
    finally:
        drop_core(ref_pkg)
    return viols


# ---------------------------------------------------------------------------------------------
# instance graphs for the serialiser


def _eval_graph(g: dict, conv, utils, module) -> list[Violation]:
    """g = {"n": number of nodes, "names": [str], "next": [idx|None], "children": [[idx...]], "meta": bool}"""
    ns = {}
    if g.get("meta"):
        ns["Meta"] = type("Meta", (), {"key_transform_with_load": {"nodeName": "name", "nextNode": "next_", "kids": "children", "tag": "tag"},
                                       "key_transform_with_dump": {"name": "nodeName", "next_": "nextNode", "children": "kids", "tag": "tag"}})
    Node = dataclasses.make_dataclass(
        "GNode",
        [("name", str),
         ("next_", "GNode | None" if g.get("style") == "pep604_string" else typing.Optional["GNode"], dataclasses.field(default=None)),
         ("children", 'typing.List["GNode"] | None' if g.get("style") == "pep604_string" else typing.Optional[typing.List["GNode"]], dataclasses.field(default_factory=list)),
         ("tag", typing.Optional[str], dataclasses.field(default=None))],
        namespace=ns,
    )
    Node.__module__ = module.__name__
    module.GNode = Node
    module.typing = typing
    nodes = [Node(name=g["names"][i]) for i in range(g["n"])]
    for i, nx in enumerate(g["next"]):
        if nx is not None:
            nodes[i].next_ = nodes[nx]
    for i, ch in enumerate(g["children"]):
        nodes[i].children = [nodes[j] for j in ch]
    viols = []
    try:
        out = utils.DataclassSerializer.serialize(nodes[0])
    except RecursionError:
        return [Violation(("serializer_recursion_error", g.get("style", "optional_fwd")), json.dumps(g)[:400])]
    except Exception as e:
        return [Violation(("serializer_raised", type(e).__name__, g["shape"]), f"{e!r}"[:500])]
    try:
        json.dumps(out)
    except Exception as e:
        viols.append(Violation(("serializer_output_not_json", g["shape"]), f"{e!r} out={out!r}"[:500]))

    def has_none(o):
        if isinstance(o, dict):
            return any(v is None or has_none(v) for v in o.values())
        if isinstance(o, list):
            return any(has_none(v) for v in o)
        return False

    if has_none(out):
        viols.append(Violation(("serializer_none_valued_key", g["shape"]), f"out={out!r}"[:500]))
    if not g["cyclic"]:
        ren = {"name": "nodeName", "next_": "nextNode", "children": "kids", "tag": "tag"} if g.get("meta") else {}

        def ref(i):  # independent reference serialisation of the acyclic graph: wire keys, nulls dropped
            d = {ren.get("name", "name"): g["names"][i]}
            if g["next"][i] is not None:
                d[ren.get("next_", "next_")] = ref(g["next"][i])
            d[ren.get("children", "children")] = [ref(j) for j in g["children"][i]]
            return d

        want = ref(0)
        if out != want:
            viols.append(Violation(("serializer_differs_from_reference", g.get("style", "")), f"out={out!r} want={want!r}"[:800]))
    return viols


def _eval_family(f: dict, utils, module) -> list[Violation]:
    """Two mutually referencing classes written the natural way: FChild.parent: Optional["FParent"] (defined first),
    FParent.children: List[FChild], FParent.by_name: Dict[str, FChild], FParent.rows: List[Dict[str, "FParent"]].
    f = {"n_children", "back_pointer", "rows_self", "meta"}; with back_pointer / rows_self the instance graph is cyclic."""
    ns_c, ns_p = {}, {}
    if f.get("meta"):
        ns_c["Meta"] = type("Meta", (), {"key_transform_with_load": {"childName": "name", "parentRef": "parent"}, "key_transform_with_dump": {"name": "childName", "parent": "parentRef"}})
        ns_p["Meta"] = type("Meta", (), {"key_transform_with_load": {"parentName": "name", "kids": "children", "byName": "by_name", "rows": "rows"},
                                         "key_transform_with_dump": {"name": "parentName", "children": "kids", "by_name": "byName", "rows": "rows"}})
    Child = dataclasses.make_dataclass("FChild", [("name", str), ("parent", typing.Optional["FParent"], dataclasses.field(default=None))], namespace=ns_c)
    Child.__module__ = module.__name__
    module.FChild = Child
    Parent = dataclasses.make_dataclass("FParent", [("name", str), ("children", typing.List[Child], dataclasses.field(default_factory=list)),
                                                    ("by_name", typing.Dict[str, Child], dataclasses.field(default_factory=dict)),
                                                    ("rows", typing.List[typing.Dict[str, "FParent"]], dataclasses.field(default_factory=list))], namespace=ns_p)
    Parent.__module__ = module.__name__
    module.FParent = Parent
    module.typing = typing
    par = Parent(name="p")
    kids = [Child(name=f"c{i}") for i in range(f["n_children"])]
    par.children = list(kids)
    par.by_name = {k.name: k for k in kids[:2]}
    if f["back_pointer"]:
        for k in kids:
            k.parent = par
    other = Parent(name="q")
    par.rows = [{"self": par} if f["rows_self"] else {"other": other}]
    shape = ("back" if f["back_pointer"] else "noback") + ("_rowsself" if f["rows_self"] else "")
    try:
        out = utils.DataclassSerializer.serialize(par)
    except RecursionError:
        return [Violation(("serializer_recursion_error", "family_" + shape), json.dumps(f))]
    except Exception as e:
        return [Violation(("serializer_raised", type(e).__name__, "family_" + shape), f"{e!r}"[:500])]
    viols = []
    try:
        json.dumps(out)
    except Exception as e:
        viols.append(Violation(("serializer_output_not_json", "family_" + shape), f"{e!r} out={out!r}"[:500]))
        return viols
    if not (f["back_pointer"] or f["rows_self"]):
        rc = {"name": "childName"} if f.get("meta") else {}
        rp = {"name": "parentName", "children": "kids", "by_name": "byName", "rows": "rows"} if f.get("meta") else {}
        kid = lambda k: {rc.get("name", "name"): k.name}  # noqa: E731
        want = {rp.get("name", "name"): "p", rp.get("children", "children"): [kid(k) for k in kids], rp.get("by_name", "by_name"): {k.name: kid(k) for k in kids[:2]},
                rp.get("rows", "rows"): [{"other": {rp.get("name", "name"): "q", rp.get("children", "children"): [], rp.get("by_name", "by_name"): {}, rp.get("rows", "rows"): []}}]}
        if out != want:
            viols.append(Violation(("serializer_differs_from_reference", "family"), f"out={out!r} want={want!r}"[:800]))
    return viols


# ---------------------------------------------------------------------------------------------
# strategies


def _strategies():
    from hypothesis import strategies as st

    PY_NAMES = ["a", "b", "c", "name", "value", "id_", "type_", "class_", "user_id", "created_at", "items", "x1", "data", "from_", "kind"]
    WIRE_NAMES = ["a", "b", "c", "A", "B", "name", "Name", "NAME", "value", "id", "type", "class", "userId", "user_id", "user-id", "createdAt",
                  "items", "x1", "data", "from", "kind", "@id", "$ref", "with space", "é", "1st", "", "None", "self"]
    DC_NAMES = ["A", "B", "Node", "Item", "Payload"]

    leaf = st.one_of(
        st.sampled_from([{"k": "str"}, {"k": "int"}, {"k": "float"}, {"k": "bool"}, {"k": "bytes"}, {"k": "datetime"}, {"k": "date"}, {"k": "any"}]),
        st.lists(st.sampled_from(["red", "green", "blue", "x y", "A", ""]), min_size=1, max_size=3, unique=True).map(lambda m: {"k": "enum", "members": m}),
    )

    @st.composite
    def dc(draw, inner):
        n = draw(st.integers(1, 4))
        pys = draw(st.lists(st.sampled_from(PY_NAMES), min_size=n, max_size=n, unique=True))
        meta = draw(st.booleans())
        if meta:
            mode = draw(st.sampled_from(["random", "random", "swap", "casefold", "identity"]))
            if mode == "random":
                wires = draw(st.lists(st.sampled_from(WIRE_NAMES), min_size=n, max_size=n, unique=True))
            elif mode == "swap" and n >= 2:
                wires = pys[1:] + pys[:1]  # every wire key is ANOTHER field's python name
            elif mode == "casefold":
                base = draw(st.sampled_from(["name", "value", "id"]))
                wires = [base, base.capitalize(), base.upper(), base + "_"][:n]
            else:
                wires = list(pys)
        else:
            wires = list(pys)
        fields = []
        for p, w in zip(pys, wires):
            fields.append({"py": p, "wire": w, "t": draw(inner), "required": draw(st.booleans())})
        return {"k": "dc", "name": draw(st.sampled_from(DC_NAMES)), "fields": fields, "meta": meta}

    def extend(inner):
        return st.one_of(
            inner.map(lambda t: {"k": "list", "of": t}),
            inner.map(lambda t: {"k": "dict", "of": t}),
            inner.filter(lambda t: t["k"] not in ("opt", "any")).map(lambda t: {"k": "opt", "of": t}),
            dc(inner),
            dc(inner),
        )

    tree = st.recursive(leaf, extend, max_leaves=10)
    top = dc(tree)

    text = st.text(st.characters(blacklist_categories=("Cs",)), max_size=8)

    @st.composite
    def doc_for(draw, t):
        k = t["k"]
        if k == "str":
            return draw(st.one_of(text, st.sampled_from(["", "é", "漢", "a\nb", "null", "2020-01-01"])))
        if k == "int":
            return draw(st.one_of(st.integers(-10, 10), st.integers(-(2**70), 2**70)))
        if k == "float":
            return draw(st.one_of(st.floats(allow_nan=False, allow_infinity=False), st.integers(-5, 5).map(float)))
        if k == "bool":
            return draw(st.booleans())
        if k == "bytes":
            import base64

            return base64.b64encode(draw(st.binary(max_size=12))).decode()
        if k == "datetime":
            d = draw(st.datetimes(min_value=_dt.datetime(1971, 1, 1), max_value=_dt.datetime(2100, 1, 1)))
            suffix = draw(st.sampled_from(["Z", "+00:00", "+02:00", "-05:30", ""]))
            return d.isoformat() + suffix
        if k == "date":
            return draw(st.dates(min_value=_dt.date(1900, 1, 1), max_value=_dt.date(2200, 1, 1))).isoformat()
        if k == "any":
            return draw(st.recursive(st.one_of(st.integers(-3, 3), text, st.booleans(), st.none()), lambda c: st.one_of(st.lists(c, max_size=2), st.dictionaries(st.sampled_from(["p", "q"]), c, max_size=2)), max_leaves=4))
        if k == "enum":
            return draw(st.sampled_from(t["members"]))
        if k == "list":
            return [draw(doc_for(t["of"])) for _ in range(draw(st.integers(0, 3)))]
        if k == "dict":
            keys = draw(st.lists(st.sampled_from(["k1", "k2", "é", "a b", ""]), max_size=3, unique=True))
            return {kk: draw(doc_for(t["of"])) for kk in keys}
        if k == "opt":
            return None if draw(st.integers(0, 3)) == 0 else draw(doc_for(t["of"]))
        if k == "dc":
            out = {}
            for f in t["fields"]:
                if f["required"] or draw(st.booleans()):
                    out[wire_key(t, f)] = draw(doc_for(f["t"]))
            return out
        raise ValueError(k)

    def corrupt_for(t, doc, draw):
        """Pick one present leaf position and a structurally impossible value for it."""
        cands = []

        def walk(tt, d, path, names):
            k = tt["k"]
            if d is None:
                return
            if k == "opt":
                walk(tt["of"], d, path, names)
            elif k in ("int",) and path:
                cands.append({"path": path, "value": {"not": "an int"}, "names": names, "kind": "dict_for_int"})
            elif k == "date" and path:
                cands.append({"path": path, "value": "not-a-date", "names": names, "kind": "garbage_for_date"})
            elif k == "datetime" and path:
                cands.append({"path": path, "value": [1, 2], "names": names, "kind": "list_for_datetime"})
            elif k == "enum" and path:
                cands.append({"path": path, "value": "__no_such_member__", "names": names, "kind": "unknown_enum_member"})
            elif k == "dc" and isinstance(d, dict):
                if path:
                    cands.append({"path": path, "value": [1, 2, 3], "names": names, "kind": "list_for_dataclass"})
                for f in tt["fields"]:
                    wk = wire_key(tt, f)
                    if wk in d:
                        walk(f["t"], d[wk], path + [wk], names + [f["py"], wk])
            elif k == "list" and isinstance(d, list):
                for i, v in enumerate(d):
                    walk(tt["of"], v, path + [i], names)
            elif k == "dict" and isinstance(d, dict):
                for kk, v in d.items():
                    walk(tt["of"], v, path + [kk], names)

        walk(t, doc, [], [])
        if not cands or draw(st.integers(0, 2)) == 0:
            return None
        return draw(st.sampled_from(cands))

    @st.composite
    def step(draw):
        t = draw(top)
        doc = draw(doc_for(t))
        return {"type": t, "doc": doc, "corrupt": corrupt_for(t, doc, draw)}

    @st.composite
    def graph(draw):
        shape = draw(st.sampled_from(["chain", "self_loop", "two_cycle_list", "ring", "diamond", "random"]))
        n = draw(st.integers(2, 5))
        same_names = draw(st.booleans())
        names = ["n"] * n if same_names else [f"n{i}" for i in range(n)]
        nxt: list = [None] * n
        ch: list = [[] for _ in range(n)]
        cyclic = False
        if shape == "chain":
            for i in range(n - 1):
                nxt[i] = i + 1
        elif shape == "self_loop":
            nxt[0] = 0
            cyclic = True
        elif shape == "two_cycle_list":
            ch[0] = [1]
            nxt[1] = 0
            cyclic = True
        elif shape == "ring":
            for i in range(n):
                nxt[i] = (i + 1) % n
            cyclic = True
        elif shape == "diamond":
            n = max(n, 4)
            names = (["n"] * n) if same_names else [f"n{i}" for i in range(n)]
            nxt = [None] * n
            ch = [[] for _ in range(n)]
            ch[0] = [1, 2]
            nxt[1] = 3
            nxt[2] = 3
        else:
            for i in range(n):
                nxt[i] = draw(st.one_of(st.none(), st.integers(0, n - 1)))
                ch[i] = draw(st.lists(st.integers(0, n - 1), max_size=2))
            # cyclic iff the reachable graph has a cycle
            def reach_cycle():
                color = {}

                def dfs(u):
                    color[u] = 1
                    for v in ([nxt[u]] if nxt[u] is not None else []) + ch[u]:
                        if color.get(v) == 1:
                            return True
                        if color.get(v) is None and dfs(v):
                            return True
                    color[u] = 2
                    return False

                return dfs(0)

            cyclic = reach_cycle()
        return {"shape": shape, "n": n, "names": names, "next": nxt, "children": ch, "cyclic": cyclic, "meta": draw(st.booleans()),
                "style": draw(st.sampled_from(["pep604_string", "optional_fwd"]))}

    @st.composite
    def type_ring(draw):
        n = draw(st.integers(1, 3))
        edges = draw(st.lists(st.sampled_from(["list", "dict", "opt"]), min_size=n, max_size=n))
        return {"n": n, "edges": edges, "meta": draw(st.sampled_from([True, True, False])), "depth": draw(st.integers(1, 4)), "start": draw(st.integers(0, 2)),
                "before_steps": draw(st.booleans())}

    case = st.fixed_dictionaries({
        "steps": st.lists(step(), min_size=1, max_size=5),
        "graph": st.one_of(st.none(), graph()),
        "type_ring": st.one_of(st.none(), type_ring()),
        "family": st.one_of(st.none(), st.fixed_dictionaries({"n_children": st.integers(1, 3), "back_pointer": st.booleans(), "rows_self": st.booleans(), "meta": st.booleans()})),
    })
    return case


def classify(case: dict) -> tuple[bool, list[str]]:
    labs = []
    nt = False
    for s in case["steps"]:
        d = depth(s["type"])
        labs.append(f"depth_{min(d, 4)}")
        if has_rename(s["type"]):
            labs.append("renamed")
        if d >= 2 and has_rename(s["type"]):
            nt = True
        if s.get("corrupt"):
            labs.append("corrupt_" + s["corrupt"]["kind"])
    names = [s["type"]["name"] for s in case["steps"]]
    if len(set(names)) < len(names):
        labs.append("name_reused_in_history")
    labs.append(f"steps_{len(case['steps'])}")
    fam = case.get("family")
    if fam:
        labs.append("family_" + ("cyclic" if fam["back_pointer"] or fam["rows_self"] else "acyclic"))
        if fam["back_pointer"] or fam["rows_self"]:
            nt = True
    r = case.get("type_ring")
    if r:
        labs.append(f"type_ring_{r['n']}")
        labs.append("type_ring_" + "_".join(sorted(set(r["edges"]))))
        if r["n"] >= 2 and r["meta"]:
            nt = True
    g = case.get("graph")
    if g:
        labs.append("graph_" + g["shape"])
        labs.append("graph_style_" + g.get("style", "optional_fwd"))
        if g["cyclic"]:
            labs.append("graph_cyclic")
            nt = True
    return nt, labs


def shards(tier: str, seed: int) -> list[dict]:
    n_sh, per = (16, 150) if tier == "quick" else (48, 1000)
    return [{"seed": seed * 1000 + i, "n": per} for i in range(n_sh)]


def run_shard(shard: dict) -> dict:
    from .. import hyp

    col = Collector()

    def body(case):
        nt, labs = classify(case)
        col.record(case, evaluate(case), nt, labs)

    hyp.run_cases(_strategies(), shard["n"], shard["seed"], body)
    return col.to_dict()
