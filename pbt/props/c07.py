"""C07 — every operation is reachable exactly once per tag; none silently dropped.

Oracle (behavioural): import the generated package, enumerate the tag clients reachable as properties of APIClient, CALL every
public coroutine / async-generator method with probe arguments through an in-memory server and record which
(HTTP method, path template) it issues.  For every operation of the document the number of methods that reach it must equal the
number of its tag groups (tags differing only in case/punctuation are one group; no tag -> `default`): 0 = silently dropped,
more = duplicated.  A raise from generate_client is "fails visibly" and satisfies the property.  Names: for the `operationId`
strategy a snake_case ASCII operationId that is unique in the document is kept verbatim; for `path` the name starts with the
HTTP method.
"""

from __future__ import annotations

import keyword
import re

from .. import domain, drive, genrun, hyp, specgen
from ..runner import Collector, Violation

PROPERTY_ID = "C07"
LEVEL = "exploration"
RULE = (
    "case = (constructed OpenAPI document with 1..6 operations: tags none/one/several/case-punctuation variants, operationId "
    "absent / camel / snake / duplicated after sanitisation / FastAPI-suffixed / hostile, naming strategy operationId|clean|path, "
    "JSON / YAML / YAML with unquoted integer status keys). Non-trivial = >= 2 operations sharing a tag group, or a multi-tag "
    "operation, or two operationIds equal after sanitisation."
)
ASSUMPTIONS = [
    "tag groups are compared by lower-cased alphanumeric content (the documented case-insensitive merging)",
    "a method is attributed to an operation by the request it actually issues (method + path template match), not by its name",
    "C01's open triggers are excluded from the domain; a package that still cannot be compiled/imported leaves every operation unreachable and is reported",
]
MIN_NONTRIVIAL = {"quick": 300, "thorough": 3000}
valid_case = specgen.valid_case


def _norm_tag(t: str) -> str:
    return re.sub(r"[^0-9a-z]", "", t.lower())


def expectations(spec: dict) -> dict:
    exp = {}
    for o in drive.spec_operations(spec):
        groups = {_norm_tag(t) for t in o["tags"]} or {"default"}
        exp[(o["method"], o["path"])] = len(groups)
    return exp


def nontrivial(spec: dict) -> bool:
    ops = drive.spec_operations(spec)
    groups: dict[str, int] = {}
    ids = []
    for o in ops:
        for gname in ({_norm_tag(t) for t in o["tags"]} or {"default"}):
            groups[gname] = groups.get(gname, 0) + 1
        if len({_norm_tag(t) for t in o["tags"]}) > 1:
            return True
        if "operationId" in o["op"]:
            ids.append(re.sub(r"[^0-9a-z]", "", o["op"]["operationId"].lower()))
    return any(v >= 2 for v in groups.values()) or len(ids) != len(set(ids))


def check(res: genrun.GenResult, case: dict) -> list[Violation]:
    spec = case["spec"]
    viols: list[Violation] = []
    exp = expectations(spec)
    with drive.Session(res, spec, transport="bundled") as s:
        found, problems = s.discover()
        fmt = case["cfg"].get("fmt")
        unprobed = [pr for pr in problems if pr["kind"] == "no_single_request"]
        if unprobed:
            # some method could not be driven to a request with probe arguments: reachability cannot be decided for this package
            return [Violation(("__unprobed__",), str(unprobed[:2]))]
        for (m, p), n in exp.items():
            got = found.get((m, p), [])
            if len(got) < n:
                kind = "operation_dropped" if not got else "operation_missing_from_a_tag"
                viols.append(Violation((kind, "fmt_" + str(fmt)), f"{m} {p}: expected on {n} tag client(s), reachable via {got}; problems={problems[:3]}"))
            elif len(got) > n:
                viols.append(Violation(("operation_duplicated",), f"{m} {p}: expected {n}, reachable via {got}"))
            elif len({a for a, _ in got}) != len(got):
                viols.append(Violation(("operation_twice_on_one_client",), f"{m} {p}: {got}"))
        for pr in problems:
            if pr["kind"] == "request_matches_no_operation":
                viols.append(Violation(("method_issues_unknown_request",), str(pr)))
            elif pr["kind"] == "tag_property_raises":
                viols.append(Violation(("tag_property_raises",), str(pr)))
        # naming strategy
        strategy = case["cfg"].get("naming", "operationId")
        ops = drive.spec_operations(spec)
        all_ids = [o["op"].get("operationId") for o in ops if "operationId" in o["op"]]
        for o in ops:
            names = {mn for _, mn in found.get((o["method"], o["path"]), [])}
            for mn in names:
                if not mn.isidentifier() or keyword.iskeyword(mn):
                    viols.append(Violation(("method_name_invalid",), mn))
            oid = o["op"].get("operationId")
            if strategy == "operationId" and oid and re.fullmatch(r"[a-z][a-z0-9]*(_[a-z0-9]+)*", oid) and not keyword.iskeyword(oid) \
                    and [re.sub(r"[^0-9a-z]", "", (x or "").lower()) for x in all_ids].count(re.sub(r"[^0-9a-z]", "", oid.lower())) == 1 \
                    and not re.search(r"_\d+$", oid) and oid not in _RESERVED:
                if names and names != {oid}:
                    viols.append(Violation(("naming_strategy", "operationId_not_kept"), f"{oid} -> {sorted(names)}"))
            if strategy == "path" and names and not all(n.startswith(o["method"].lower() + "_") or n == o["method"].lower() for n in names):
                viols.append(Violation(("naming_strategy", "path_name_without_method_prefix"), f"{o['method']} {o['path']} -> {sorted(names)}"))
    return viols


_RESERVED = {"list", "type", "id", "data", "filter", "format", "input", "print", "open", "next", "iter", "map", "max", "min", "sum", "hash", "help",
             "model", "models", "client", "api", "config", "utils", "json", "time", "copy", "re", "os", "sys", "set", "dict", "int", "str", "bool",
             "object", "range", "all", "any", "request", "close"}


def evaluate(case: dict) -> list[Violation]:
    res = genrun.generate({**case, "cfg": {**case["cfg"], "prefix": genrun.unique_prefix()}})
    try:
        if not res.ok or genrun.compile_all(res):
            return []
        try:
            return [v for v in check(res, case) if v.sig != ("__unprobed__",)]
        except (ImportError, SyntaxError, NameError):
            return []
    finally:
        genrun.cleanup(res)


def shards(tier: str, seed: int) -> list[dict]:
    n_sh, per = (16, 100) if tier == "quick" else (48, 600)
    return [{"seed": seed * 1000 + i, "n": per} for i in range(n_sh)]


def _method_names(res: genrun.GenResult) -> list[tuple[str, tuple[str, ...]]]:
    """[(endpoint module, sorted public async method names of its client class)] read from the emitted sources."""
    import ast
    import os

    out = []
    d = os.path.join(res.out_dir, "endpoints")
    for fn in sorted(os.listdir(d)) if os.path.isdir(d) else []:
        if not fn.endswith(".py") or fn == "__init__.py":
            continue
        tree = ast.parse(open(os.path.join(d, fn), encoding="utf-8").read())
        names: set[str] = set()
        for cls in [n for n in tree.body if isinstance(n, ast.ClassDef) and not n.name.endswith("Protocol")]:
            names |= {f.name for f in cls.body if isinstance(f, ast.AsyncFunctionDef) and not f.name.startswith("__")}
        out.append((fn, tuple(sorted(names))))
    return out


def naming_sequence_violations(case: dict, res: genrun.GenResult) -> list[Violation]:
    """History: the SAME document file generated again in this process with another naming strategy must give exactly what a
    first generation with that strategy gives (method names follow the selected strategy, not an earlier call's)."""
    order = ["operationId", "clean", "path"]
    other = order[(order.index(case["cfg"]["naming"]) + 1) % 3]
    cfg2 = {**case["cfg"], "naming": other, "prefix": genrun.unique_prefix()}
    again = genrun.generate({**case, "cfg": cfg2}, spec_path=res.spec_path)  # same file (same path, mtime, size), other strategy
    fresh = genrun.generate({**case, "cfg": {**cfg2, "prefix": genrun.unique_prefix()}})  # the same document written to a new file
    try:
        if not (again.ok and fresh.ok):
            if again.ok != fresh.ok:
                return [Violation(("naming_sequence", "outcome_differs"), f"second run ok={again.ok} ({again.error}), first run with {other} ok={fresh.ok} ({fresh.error})"[:400])]
            return []
        a, f = _method_names(again), _method_names(fresh)
        if a != f:
            return [Violation(("naming_sequence", "method_names_follow_an_earlier_call", case["cfg"]["naming"] + "_then_" + other),
                              f"after {case['cfg']['naming']}: {a} ; first generation with {other}: {f}"[:700])]
        return []
    finally:
        genrun.cleanup(again)
        genrun.cleanup(fresh)


def _role(rel: str) -> str:
    from .c01 import role_of

    return role_of(rel)


def run_shard(shard: dict) -> dict:
    from .. import runner

    col = Collector()
    gate = specgen.Gate(domain.excluded("C01", "C03", "C07", "C04"))  # C04: calls that cannot be made (non-string header values) would leave the package undecided
    cases = hyp.draw_cases(specgen.cases(gate, max_schemas=2, max_ops=5, min_ops=1), shard["n"], shard["seed"])
    col.excluded.update(gate.excluded)
    for i, case in enumerate(cases):
        res = genrun.generate({**case, "cfg": {**case["cfg"], "prefix": genrun.unique_prefix()}})
        try:
            if not res.ok:
                col.rejected += 1
                col.record(case, [], False, ["rejected_visibly"])
                continue
            bad = genrun.compile_all(res)
            if bad:
                # C01's open triggers are excluded from this domain, so a package that cannot be loaded here leaves every operation
                # unreachable for a reason nobody has listed: reported (as C01 would)
                col.record(case, [Violation(("package_unusable_operations_unreachable", "compile", _role(bad[0][0])), f"{bad[0][0]}: {bad[0][1]}"[:300])], nontrivial(case["spec"]), ["package_unusable"])
                continue
            try:
                viols = check(res, case)
            except (ImportError, SyntaxError, NameError) as e:
                col.record(case, [Violation(("package_unusable_operations_unreachable", type(e).__name__, "import"), f"{e!r}"[:300])], nontrivial(case["spec"]), ["package_unusable"])
                continue
            if i % 3 == 0:
                viols = list(viols) + naming_sequence_violations(case, res)
            labs = [f"naming_{case['cfg']['naming']}", f"fmt_{case['cfg']['fmt']}"] + (["naming_sequence_checked"] if i % 3 == 0 else [])
            if viols and viols[0].sig == ("__unprobed__",):
                col.classes["undecided_probe_failed"] += 1
                col.extra.setdefault("probe_failures", [])
                if len(col.extra["probe_failures"]) < 3:
                    col.extra["probe_failures"].append(viols[0].detail[:300])
                continue
            col.record(case, viols, nontrivial(case["spec"]), labs)
        finally:
            genrun.cleanup(res)
        if i % 50 == 0:
            runner.truncate_generator_logs()
    return col.to_dict()
