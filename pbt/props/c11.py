"""C11 — clients sharing one core package keep working as more are generated   (histories x configurations).

Case   : {"core_depth": 1..4, "client_depth": 1..3, "steps": [{"client": "a"|"b"|"c", "spec": 0..6, "force": bool}, ...]}
         one sandbox project; every step calls generate_client for that client package with the shared core package.
         The spec pool declares different error-status sets (incl. none at all) and tags; regenerating a client with another
         spec index models "regenerate with fewer / other codes".
Oracle (invariant after EVERY step): for every client generated so far, in a fresh interpreter (generator blocked): every module of
         the client package and of the core package imports — in particular every status-specific exception class its endpoints
         import from the core still exists.  A step may legitimately raise GenerationError (non-force over different output);
         the invariant is still checked.
"""

from __future__ import annotations

import json
import os
import shutil

from .. import genrun, hyp
from ..runner import Collector, Violation, worker_scratch

PROPERTY_ID = "C11"
LEVEL = "exploration"
RULE = (
    "case = history of 2..7 generate steps over 3 client packages x 7 specs (error-status sets {404}, {409,503}, {404,422,500}, {}, "
    "{400}, {401,403,404,429}, {502}) x force on/off, with shared-core depth 1..4 (or a core named <client a>_core next to the clients) and client depth 1..3 drawn once per history. "
    "The invariant is evaluated after every step. Non-trivial = a history with >= 2 distinct clients whose status sets differ and "
    ">= 1 regeneration of an already generated client. distinct = distinct case JSON."
)
ASSUMPTIONS = [
    "importability is judged in a fresh child interpreter with only httpx/cattrs available (shared with C01)",
    "a step that raises is an outcome, not a violation",
]
MIN_NONTRIVIAL = {"quick": 60, "thorough": 800}


def _spec(title: str, codes: list[int], tag: str, extra_op: bool = False) -> dict:
    responses = {"200": {"description": "ok", "content": {"application/json": {"schema": {"$ref": "#/components/schemas/Thing"}}}}}
    for c in codes:
        responses[str(c)] = {"description": f"e{c}"}
    paths = {f"/{tag}": {"get": {"operationId": f"list_{tag}", "tags": [tag], "responses": responses}}}
    if extra_op:
        paths[f"/{tag}/{{id}}"] = {"delete": {"operationId": f"delete_{tag}", "tags": [tag], "parameters": [{"name": "id", "in": "path", "required": True, "schema": {"type": "string"}}],
                                               "responses": {"204": {"description": "gone"}, **{str(c): {"description": "e"} for c in codes[:1]}}}}
    return {"openapi": "3.0.3", "info": {"title": title, "version": "1"}, "paths": paths,
            "components": {"schemas": {"Thing": {"type": "object", "properties": {"id": {"type": "integer"}}}}}}


SPEC_CODES = [[404], [409, 503], [404, 422, 500], [], [400], [401, 403, 404, 429], [502]]
SPECS = [_spec(f"S{i}", codes, ["pets", "orders", "users", "health", "items", "admin", "proxy"][i], extra_op=i % 2 == 0) for i, codes in enumerate(SPEC_CODES)]
CORE_PKGS = {1: "sharedcore", 2: "shared.corepkg", 3: "shared.rt.corepkg", 4: "org.shared.rt.corepkg",
             5: None}  # 5: a sibling of the clients whose name starts with client a's name (acli_core next to acli, bcli, ccli)


def core_pkg_of(case: dict) -> str:
    if case["core_depth"] == 5:
        return CLIENT_PKGS[case["client_depth"]].format(c="a") + "_core"
    return CORE_PKGS[case["core_depth"]]
CLIENT_PKGS = {1: "{c}cli", 2: "apis.{c}cli", 3: "org.apis.{c}cli"}


def valid_case(case: dict) -> bool:
    try:
        return (case["core_depth"] in CORE_PKGS and case["client_depth"] in CLIENT_PKGS and isinstance(case["steps"], list) and len(case["steps"]) >= 1
                and all(s["client"] in ("a", "b", "c") and 0 <= s["spec"] < len(SPECS) and isinstance(s["force"], bool) for s in case["steps"]))
    except Exception:
        return False


def run_history(case: dict) -> tuple[list[Violation], dict]:
    import contextlib
    import io
    import logging

    from pyopenapi_gen import generate_client

    root = os.path.join(worker_scratch(), genrun.unique_prefix())
    os.makedirs(root)
    spec_dir = os.path.join(root, "_specs")
    os.makedirs(spec_dir)
    core_pkg = core_pkg_of(case)
    viols: list[Violation] = []
    info = {"raised_steps": 0}
    generated: dict[str, dict] = {}  # client pkg -> {"spec": idx}
    logging.disable(logging.CRITICAL)
    try:
        for si, step in enumerate(case["steps"]):
            pkg = CLIENT_PKGS[case["client_depth"]].format(c=step["client"])
            sp = os.path.join(spec_dir, f"s{step['spec']}.json")
            if not os.path.exists(sp):
                json.dump(SPECS[step["spec"]], open(sp, "w"))
            try:
                with contextlib.redirect_stdout(io.StringIO()):
                    generate_client(spec_path=sp, project_root=root, output_package=pkg, core_package=core_pkg, force=step["force"], no_postprocess=True)
                generated[pkg] = {"spec": step["spec"]}
            except Exception as e:
                info["raised_steps"] += 1
                if pkg not in generated and os.path.isdir(os.path.join(root, *pkg.split("."))):
                    generated[pkg] = {"spec": step["spec"]}
            if not generated:
                continue
            rep = genrun.child_import([{"root": root, "packages": sorted(generated) + [core_pkg], "star": False}])[0]
            seen = set()
            for e in rep["errors"]:
                if e["stage"] != "import":
                    continue
                owner = next((g for g in generated if e["module"] == g or e["module"].startswith(g + ".")), "core")
                other = owner != CLIENT_PKGS[case["client_depth"]].format(c=step["client"])
                kind = "other_client_broken" if other and owner != "core" else ("core_broken" if owner == "core" else "own_client_broken")
                msg = e["error"]
                what = "missing_exception_alias" if "cannot import name" in msg and "Error" in msg else ("name_error" if "NameError" in msg else "other")
                sig = ("import_broken_after_step", kind, what, f"core_depth_{case['core_depth']}")
                if sig in seen:
                    continue
                seen.add(sig)
                viols.append(Violation(sig, f"after step {si} {step}: {e['module']}: {msg[:300]}"))
            if viols:
                break
        return viols, info
    finally:
        logging.disable(logging.NOTSET)
        shutil.rmtree(root, ignore_errors=True)


def evaluate(case: dict) -> list[Violation]:
    return run_history(case)[0]


def nontrivial(case: dict) -> bool:
    clients = {}
    regen = False
    for s in case["steps"]:
        if s["client"] in clients:
            regen = True
        clients.setdefault(s["client"], set()).add(tuple(SPEC_CODES[s["spec"]]))
    sets = {frozenset(c for codes in v for c in codes) for v in clients.values()}
    return len(clients) >= 2 and len(sets) >= 2 and regen


def strategy():
    from hypothesis import strategies as st

    step = st.fixed_dictionaries({"client": st.sampled_from(["a", "b", "c"]), "spec": st.integers(0, len(SPECS) - 1), "force": st.sampled_from([True, True, False])})
    return st.fixed_dictionaries({"core_depth": st.sampled_from([1, 2, 2, 3, 4, 5]), "client_depth": st.sampled_from([1, 2, 3]),
                                  "steps": st.lists(step, min_size=2, max_size=7)})


def shards(tier: str, seed: int) -> list[dict]:
    n_sh, per = (16, 30) if tier == "quick" else (48, 200)
    return [{"seed": seed * 1000 + i, "n": per} for i in range(n_sh)]


def run_shard(shard: dict) -> dict:
    col = Collector()
    from ..runner import load_known_findings

    deep_open = any(k.get("status") == "open" and "deep_shared_core" in (k.get("exclude_features") or []) for k in load_known_findings("C11"))
    for case in hyp.draw_cases(strategy(), shard["n"], shard["seed"]):
        if deep_open and case["core_depth"] >= 3:
            col.excluded["deep_shared_core"] += 1
            case = {**case, "core_depth": 2}
        viols, info = run_history(case)
        col.record(case, viols, nontrivial(case), [f"core_depth_{case['core_depth']}", f"client_depth_{case['client_depth']}", f"steps_{len(case['steps'])}",
                                                    "has_raised_step" if info["raised_steps"] else "no_raised_step"])
    return col.to_dict()
