"""C19 — output depends on the document's meaning, not its rendering (metamorphic).

For one constructed document D and configuration:
  R0  D as JSON (reference)
  R1  YAML block style            R2  YAML flow style           R3  YAML with unquoted integer status keys
  R4  YAML with every scalar key/value quoted where YAML allows it
      -> pure re-renderings: IDENTICAL file hashes (path -> sha256 of every emitted file)
  R5  key order shuffled inside EVERY mapping of the document (incl. path items, operations, responses)
  R6  components.schemas, paths, methods within a path and properties within every object permuted
      -> reorderings: equal NORMALISED package manifest
         {model class -> sorted[(field, annotation, has default, wire key)], enum -> members, alias -> target,
          tag client class -> sorted[(method name, parameters, return annotation)]}   computed from the ASTs of the emitted files
         (no import needed), i.e. only the order of declarations may differ.
"""

from __future__ import annotations

import ast
import copy
import hashlib
import json
import os
import random

from .. import domain, genrun, hyp, specgen
from ..runner import Collector, Violation

PROPERTY_ID = "C19"
LEVEL = "exploration"
RULE = (
    "case = (constructed document without name collisions, layout, permutation seed). 6 derived renderings/reorderings are generated "
    "and compared with the JSON reference. Non-trivial = the permutation is not the identity on >= 2 schemas joined by a reference "
    "edge, or the rendering has a non-string (integer) key. distinct = distinct case JSON."
)
ASSUMPTIONS = [
    "reorderings may change the ORDER of emitted declarations only; names, fields, annotations, wire keys, methods and signatures must be equal as sets",
    "documents with reference cycles or colliding names are outside the domain (order dependence there is the listed finding C02-F01 / C20)",
    "the permutation is derived from the case's own perm_seed with a local PRNG seeded by it (a pure function of the case)",
]
MIN_NONTRIVIAL = {"quick": 150, "thorough": 2000}
valid_case = specgen.valid_case


def _shuffle_all(node, rnd: random.Random):
    if isinstance(node, dict):
        items = list(node.items())
        rnd.shuffle(items)
        return {k: _shuffle_all(v, rnd) for k, v in items}
    if isinstance(node, list):
        return [_shuffle_all(v, rnd) for v in node]
    return node


def _permute_semantic(spec: dict, rnd: random.Random) -> dict:
    s = copy.deepcopy(spec)

    def perm(d):
        items = list(d.items())
        rnd.shuffle(items)
        return dict(items)

    def walk_props(n):
        if isinstance(n, dict):
            for k, v in list(n.items()):
                walk_props(v)
            if isinstance(n.get("properties"), dict) and all(isinstance(v, dict) for v in n["properties"].values()):
                n["properties"] = perm(n["properties"])
        elif isinstance(n, list):
            for v in n:
                walk_props(v)

    comps = s.get("components") or {}
    if isinstance(comps.get("schemas"), dict):
        comps["schemas"] = perm(comps["schemas"])
    walk_props(s)
    if isinstance(s.get("paths"), dict):
        newp = {}
        for p, item in perm(s["paths"]).items():
            if isinstance(item, dict):
                params = {k: v for k, v in item.items() if k not in specgen.METHODS}
                meths = perm({k: v for k, v in item.items() if k in specgen.METHODS})
                item = {**params, **meths}
            newp[p] = item
        s["paths"] = newp
    return s


def _write_variant(spec: dict, path_base: str, kind: str) -> str:
    import yaml

    if kind == "json":
        p = path_base + ".json"
        json.dump(spec, open(p, "w"))
        return p
    p = path_base + ".yaml"
    doc = spec
    if kind == "yaml_int":
        doc = copy.deepcopy(spec)
        for item in (doc.get("paths") or {}).values():
            for m, op in (item.items() if isinstance(item, dict) else []):
                if isinstance(op, dict) and isinstance(op.get("responses"), dict):
                    op["responses"] = {(int(k) if isinstance(k, str) and k.isdigit() else k): v for k, v in op["responses"].items()}
    with open(p, "w") as f:
        if kind == "yaml_flow":
            yaml.safe_dump(doc, f, sort_keys=False, allow_unicode=True, default_flow_style=True)
        elif kind == "yaml_quoted":
            yaml.safe_dump(doc, f, sort_keys=False, allow_unicode=False, default_style='"')
        else:
            yaml.safe_dump(doc, f, sort_keys=False, allow_unicode=True, default_flow_style=False)
    return p


def _hashes(res: genrun.GenResult) -> dict:
    out = {}
    for base in {res.out_dir, res.core_dir}:
        for dp, dn, fn in os.walk(base):
            for f in fn:
                p = os.path.join(dp, f)
                out[os.path.relpath(p, res.root)] = hashlib.sha256(open(p, "rb").read()).hexdigest()
    return out


def _norm_ann(node) -> str | None:
    """Annotation source with the members of every Union[...] / X | Y sorted (a union is a set of types)."""
    if node is None:
        return None

    class T(ast.NodeTransformer):
        def visit_Subscript(self, n):
            self.generic_visit(n)
            if isinstance(n.value, ast.Name) and n.value.id == "Union" and isinstance(n.slice, ast.Tuple):
                n.slice.elts = sorted(n.slice.elts, key=ast.unparse)
            return n

        def visit_BinOp(self, n):
            self.generic_visit(n)
            if isinstance(n.op, ast.BitOr):
                parts = []

                def flat(x):
                    if isinstance(x, ast.BinOp) and isinstance(x.op, ast.BitOr):
                        flat(x.left)
                        flat(x.right)
                    else:
                        parts.append(x)

                flat(n)
                parts.sort(key=ast.unparse)
                out = parts[0]
                for p_ in parts[1:]:
                    out = ast.BinOp(left=out, op=ast.BitOr(), right=p_)
                return out
            return n

    import copy as _c

    return ast.unparse(T().visit(_c.deepcopy(node)))


def normalised_manifest(res: genrun.GenResult) -> dict:
    man: dict = {"models": {}, "enums": {}, "aliases": {}, "clients": {}}
    for rel in genrun.list_py_files(res):
        path = os.path.join(res.root, rel)
        parts = rel.replace("\\", "/").split("/")
        if "core" in parts[:-1] and "models" not in parts and "endpoints" not in parts:
            continue
        try:
            tree = ast.parse(open(path, encoding="utf-8").read())
        except SyntaxError:
            man.setdefault("unparsable", []).append(rel)
            continue
        in_models = "models" in parts
        in_endpoints = "endpoints" in parts and "mocks" not in parts
        for node in tree.body:
            if in_models and isinstance(node, ast.ClassDef):
                bases = [ast.unparse(b) for b in node.bases]
                if any("Enum" in b for b in bases):
                    man["enums"][node.name] = sorted((t.id, ast.unparse(st_.value)) for st_ in node.body if isinstance(st_, ast.Assign) for t in st_.targets if isinstance(t, ast.Name))
                else:
                    fields = []
                    meta = {}
                    for st_ in node.body:
                        if isinstance(st_, ast.AnnAssign) and isinstance(st_.target, ast.Name):
                            fields.append((st_.target.id, _norm_ann(st_.annotation), st_.value is not None))
                        if isinstance(st_, ast.ClassDef) and st_.name == "Meta":
                            for ms in st_.body:
                                if isinstance(ms, ast.Assign) and isinstance(ms.value, ast.Dict) and getattr(ms.targets[0], "id", "") == "key_transform_with_load":
                                    try:
                                        meta = {ast.literal_eval(k): ast.literal_eval(v) for k, v in zip(ms.value.keys, ms.value.values)}
                                    except Exception:
                                        meta = {"<unevaluable>": ast.unparse(ms.value)}
                    inv = {v: k for k, v in meta.items()}
                    man["models"][node.name] = sorted((n, a, d, inv.get(n)) for n, a, d in fields)
            elif in_models and isinstance(node, ast.AnnAssign) and isinstance(node.target, ast.Name) and "TypeAlias" in ast.unparse(node.annotation):
                man["aliases"][node.target.id] = _norm_ann(node.value) if node.value is not None else None
            elif in_endpoints and isinstance(node, ast.ClassDef) and not node.name.endswith("Protocol"):
                methods = []
                for fn in node.body:
                    if isinstance(fn, ast.AsyncFunctionDef) and not fn.name.startswith("__"):
                        if any("overload" in ast.unparse(d) for d in fn.decorator_list):
                            continue
                        a = fn.args
                        params = [(x.arg, _norm_ann(x.annotation)) for x in a.args[1:] + a.kwonlyargs]
                        methods.append((fn.name, tuple(sorted(params, key=repr)), _norm_ann(fn.returns)))
                man["clients"][node.name] = sorted(methods)
    return man


def _manifest_diff(a: dict, b: dict) -> tuple[str, str] | None:
    for section in ("models", "enums", "aliases", "clients"):
        if set(a[section]) != set(b[section]):
            only_a, only_b = sorted(set(a[section]) - set(b[section])), sorted(set(b[section]) - set(a[section]))
            return section + "_set_differs", f"only in reference: {only_a[:5]} only in variant: {only_b[:5]}"
        for k in a[section]:
            if a[section][k] != b[section][k]:
                return section + "_content_differs", f"{k}: reference {a[section][k]!r} variant {b[section][k]!r}"[:700]
    return None


def run_case(case: dict) -> tuple[list[Violation], bool]:
    cfg = {**case["cfg"], "fmt": "json"}
    spec = case["spec"]
    rnd = random.Random(case.get("perm_seed", 0))  # deterministic function of the case
    variants = {
        "yaml_block": (spec, "yaml_block", "hash"), "yaml_flow": (spec, "yaml_flow", "hash"), "yaml_int_status_keys": (spec, "yaml_int", "hash"),
        "yaml_quoted": (spec, "yaml_quoted", "hash"),
        "all_mapping_keys_shuffled": (_shuffle_all(copy.deepcopy(spec), rnd), "json", "manifest"),
        "schemas_paths_properties_permuted": (_permute_semantic(spec, rnd), "json", "manifest"),
    }
    pfx = genrun.unique_prefix()
    ref = genrun.generate({"spec": spec, "cfg": cfg}, prefix="")
    viols: list[Violation] = []
    nontriv = False
    results = [ref]
    try:
        if not ref.ok:
            return [], False
        ref_hash, ref_man = _hashes(ref), normalised_manifest(ref)
        for name, (vspec, kind, mode) in variants.items():
            root = ref.root + "_" + name
            os.makedirs(root, exist_ok=True)
            sp = _write_variant(vspec, os.path.join(root, "_spec"), kind)
            r = genrun.generate({"spec": vspec, "cfg": cfg}, root=root, prefix="", spec_path=sp)
            results.append(r)
            if not r.ok:
                viols.append(Violation(("variant_rejected", name, r.error_type or "?"), f"reference generated, {name} raised {r.error}"[:400]))
                continue
            if mode == "hash":
                h = {k: v for k, v in _hashes(r).items()}
                if h != ref_hash:
                    diff = sorted(k for k in set(h) | set(ref_hash) if h.get(k) != ref_hash.get(k))
                    missing = [k for k in diff if k not in h]
                    viols.append(Violation(("rerendering_changes_output", name, "files_missing" if missing else "content"), f"{name}: {diff[:6]}"))
            else:
                d = _manifest_diff(ref_man, normalised_manifest(r))
                if d:
                    viols.append(Violation(("reordering_changes_client", name, d[0]), f"{name}: {d[1]}"))
        schemas = (spec.get("components") or {}).get("schemas") or {}
        nontriv = (len(schemas) >= 2 and "$ref" in repr(schemas)) or bool(spec.get("paths"))
        return viols, nontriv
    finally:
        for r in results:
            genrun.cleanup(r)


def evaluate(case: dict) -> list[Violation]:
    return run_case(case)[0]


def shards(tier: str, seed: int) -> list[dict]:
    n_sh, per = (16, 30) if tier == "quick" else (48, 250)
    return [{"seed": seed * 1000 + i, "n": per} for i in range(n_sh)]


def run_shard(shard: dict) -> dict:
    from hypothesis import strategies as st

    from .. import runner

    col = Collector()
    gate = specgen.Gate(domain.excluded("C01", "C03", "C19", extra={"colliding_schema_names", "dup_operation_id", "opid_collision_cluster", "tag_variant", "colliding_prop_cluster",
                                                                       "hostile_schema_name", "hostile_operation_id", "digit_leading_operation_id"}))  # "documents without name collisions"
    strat = st.tuples(specgen.cases(gate, max_schemas=4, max_ops=3, min_ops=1), st.integers(0, 2**31)).map(lambda t: {**t[0], "perm_seed": t[1]})
    cases = hyp.draw_cases(strat, shard["n"], shard["seed"])
    col.excluded.update(gate.excluded)
    for i, case in enumerate(cases):
        viols, nt = run_case(case)
        col.record(case, viols, nt, [])
        if i % 10 == 0:
            runner.truncate_generator_logs()
    return col.to_dict()
