"""C20 — name derivation is total, valid and collision-safe.

Part (a): the derivation functions the generator actually calls (class / module+tag-attribute / method+parameter+field /
          enum-member names) over ALL strings of length <= 4 over an 18-character alphabet (exhaustive, 111 151 strings; i/s/I/S spell the keywords is/as/Is/AS...)
          plus Hypothesis text() (full Unicode, <= 30 chars).  Oracle: non-empty, str.isidentifier(), not a keyword.
Part (b): colliding raw names placed in one namespace of a real spec, through generate_client (see c20b below).
"""

from __future__ import annotations

import itertools
import json
import keyword
from typing import Any

from ..runner import Collector, Violation

PROPERTY_ID = "C20"
LEVEL = "exploration"
RULE = (
    "part (a): case = (derivation function, raw string); all strings of length 0..4 over the alphabet "
    "{a,B,c,D,i,s,I,S,1,0,_,-,space,.,$,e-acute,CJK,/} are enumerated (exhaustive, distinct by construction) and random Unicode text "
    "is added; non-trivial = the string contains a character outside [A-Za-z]. part (b): case = (namespace kind, tuple of raw "
    "names that are distinct but collide or are hostile after derivation) run through generate_client + import; non-trivial = "
    "at least two raw names in one namespace derive to the same base identifier."
)
ASSUMPTIONS = [
    "only the derivation functions with call sites in the generator are checked (sanitize_tag_class_name / sanitize_tag_attr_name have none)",
    "idempotence of sanitisation is not asserted (not claimed by the property)",
    "part (b): a visible rejection (generate_client raises) satisfies the property; only silent merging/dropping or un-importable output is a violation",
]
MIN_NONTRIVIAL = {"quick": 5000, "thorough": 50000}

ALPHABET = ["a", "B", "c", "D", "i", "s", "I", "S", "1", "0", "_", "-", " ", ".", "$", "é", "漢", "/"]


def _functions() -> dict:
    from pyopenapi_gen.core.utils import NameSanitizer
    from pyopenapi_gen.core.writers.python_construct_renderer import PythonConstructRenderer
    from pyopenapi_gen.visit.model.enum_generator import EnumGenerator

    eg = EnumGenerator(PythonConstructRenderer())

    def int_member(s: str) -> str:
        try:
            iv = int(s)
        except (ValueError, TypeError):
            iv = 0
        return eg._generate_member_name_for_integer_enum(s, iv)

    return {
        "class": NameSanitizer.sanitize_class_name,
        "module": NameSanitizer.sanitize_module_name,
        "method": NameSanitizer.sanitize_method_name,
        "enum_str": eg._generate_member_name_for_string_enum,
        "enum_int": int_member,
    }


_FUNCS = None


def _valid(name: Any) -> str | None:
    if not isinstance(name, str):
        return "not_str"
    if name == "":
        return "empty"
    if not name.isidentifier():
        return "not_identifier"
    if keyword.iskeyword(name) or name in ("None", "True", "False"):
        return "keyword"
    return None


def _char_class(s: str) -> str:
    """Coarse class of the input, part of the signature so that distinct root causes get distinct buckets."""
    if s == "":
        return "empty_input"
    if all(not c.isalnum() for c in s):
        return "symbols_only"
    if all((not c.isascii()) or (not c.isalnum()) for c in s):
        return "no_ascii_alnum"
    if not s.isascii():
        return "mixed_non_ascii"
    return "ascii"


def valid_case(case: dict) -> bool:
    if case.get("part") == "b":
        from . import c20b

        return c20b.valid_case(case)
    return isinstance(case.get("s"), str) and case.get("fn") in ("class", "module", "method", "enum_str", "enum_int")


def evaluate(case: dict) -> list[Violation]:
    global _FUNCS
    if case.get("part") == "b":
        from . import c20b

        return c20b.evaluate(case)
    if _FUNCS is None:
        _FUNCS = _functions()
    fn = case["fn"]
    s = case["s"]
    try:
        out = _FUNCS[fn](s)
    except Exception as e:
        # a raise is a visible failure of derivation, but derivation is required to be total
        return [Violation(("derive", fn, "raised", type(e).__name__, _char_class(s)), f"{fn}({s!r}) raised {e!r}")]
    why = _valid(out)
    if why:
        return [Violation(("derive", fn, why, _char_class(s)), f"{fn}({s!r}) -> {out!r}")]
    return []


def shards(tier: str, seed: int) -> list[dict]:
    out = [{"mode": "enum", "first": a} for a in [""] + ALPHABET]
    n_h, per = (8, 3000) if tier == "quick" else (32, 40000)
    out += [{"mode": "hyp", "seed": seed * 1000 + i, "examples": per} for i in range(n_h)]
    from . import c20b

    out += c20b.shards(tier, seed)
    return out


def run_shard(shard: dict) -> dict:
    if shard["mode"].startswith("b_"):
        from . import c20b

        return c20b.run_shard(shard)
    col = Collector()
    global _FUNCS
    if _FUNCS is None:
        _FUNCS = _functions()
    if shard["mode"] == "enum":
        first = shard["first"]
        if first == "":
            strings = [""]
        else:
            strings = [first + "".join(t) for n in range(0, 4) for t in itertools.product(ALPHABET, repeat=n)]
        total = nt = 0
        for s in strings:
            nontriv = any(not (c.isascii() and c.isalpha()) for c in s) or s == ""
            for fn in _FUNCS:
                case = {"fn": fn, "s": s}
                total += 1
                nt += 1 if nontriv else 0
                for v in evaluate(case):
                    col.add_violation(v, case)
        col.bulk(total, nt, {"enumerated_strings": len(strings)}, sample={"fn": "class", "s": strings[len(strings) // 2]})
        col.exhaustive = None
        return col.to_dict()

    import hypothesis
    from hypothesis import HealthCheck, Phase, given, settings, strategies as st

    texts = st.one_of(
        st.text(max_size=30),
        st.text(st.sampled_from(ALPHABET + list("eEfFiInNoOrRsStTxyzZ9_")), max_size=12),
        st.sampled_from(keyword.kwlist + ["None", "True", "False", "self", "cls", "id", "type", "data", "match", "case"]).flatmap(
            lambda k: st.sampled_from([k, k.upper(), k.capitalize(), k + "_", "_" + k, k + "-", "-" + k, k + " " + k, k[:1].upper() + k[1:]])
        ),
    )

    @hypothesis.seed(shard["seed"])
    @settings(max_examples=shard["examples"], database=None, deadline=None, suppress_health_check=list(HealthCheck),
              phases=[Phase.generate], report_multiple_bugs=False)
    @given(texts)
    def body(s):
        nontriv = any(not (c.isascii() and c.isalpha()) for c in s) or s == ""
        for fn in _FUNCS:
            case = {"fn": fn, "s": s}
            col.record(case, evaluate(case), nontriv, ["hyp_" + _char_class(s)])

    body()
    return col.to_dict()
