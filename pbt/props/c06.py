"""C06 — non-2xx responses always raise a status-carrying, class-correct error.

Domain : generated operations (declared 4xx/5xx/default/3xx/1xx sets drawn by the spec strategy) x EVERY status 100..599
         (exhaustive on that axis) x transport in {bundled HttpxTransport over httpx.MockTransport; custom transport that
         returns the response unraised}.
Oracle : for status outside 200..299 the awaited call (or the first iteration of a streaming call) raises an instance of the
         package's HTTPError with .status_code == status and .response the httpx response; 400..499 => ClientError instance,
         500..599 => ServerError instance.  Nothing is asserted for 2xx.
"""

from __future__ import annotations

import json

from .. import domain, drive, genrun, hyp, specgen
from ..runner import Collector, Violation

PROPERTY_ID = "C06"
LEVEL = "exploration"
RULE = (
    "case = (constructed document, layout); every operation found behaviourally is called once per status 100..199 and "
    "300..599 and per transport kind with probe arguments; the server answers with that status (JSON body). The status axis "
    "is exhaustive. Non-trivial = (operation, status, transport) where the status is declared for the operation or the "
    "operation declares `default`; distinct by construction within a case."
)
ASSUMPTIONS = [
    "the full status sweep uses a small JSON object body; 9 body shapes (object/array/string/number/null JSON, text, empty, invalid JSON, html) are swept for the declared statuses and 7 fixed ones; nothing is asserted about the exception message",
    "operations are attributed to methods by the request they issue (pbt/drive.py discover); packages that do not import are skipped",
]
MIN_NONTRIVIAL = {"quick": 2000, "thorough": 20000}
valid_case = specgen.valid_case
STATUSES = [s for s in range(100, 600) if not 200 <= s <= 299]


BODY_SHAPES = ["object", "array", "string", "number", "null", "text", "empty", "invalid_json", "html"]


def _response(httpx, status: int, shape: str):
    if shape == "object":
        return httpx.Response(status, json={"error": "e", "code": status})
    if shape == "array":
        return httpx.Response(status, json=[{"msg": "e"}, 1])
    if shape == "string":
        return httpx.Response(status, json="failure")
    if shape == "number":
        return httpx.Response(status, json=42)
    if shape == "null":
        return httpx.Response(status, content=b"null", headers={"content-type": "application/json"})
    if shape == "text":
        return httpx.Response(status, text="plain failure")
    if shape == "empty":
        return httpx.Response(status)
    if shape == "invalid_json":
        return httpx.Response(status, content=b"{not json", headers={"content-type": "application/json"})
    return httpx.Response(status, content=b"<html><body>Bad Gateway</body></html>", headers={"content-type": "text/html; charset=latin-1"})


def _range(status: int) -> str:
    return f"{status // 100}xx"


def check(res: genrun.GenResult, case: dict, statuses=STATUSES) -> tuple[list[Violation], int, int]:
    import httpx

    spec = case["spec"]
    viols: dict[tuple, Violation] = {}
    ev = nt = 0
    ops = drive.spec_operations(spec)
    for transport in ("bundled", "custom"):
        with drive.Session(res, spec, transport=transport) as s:
            found, problems = s.discover()
            HTTPError, ClientError, ServerError = s.exc_mod.HTTPError, s.exc_mod.ClientError, s.exc_mod.ServerError
            for (m, p), where in sorted(found.items()):
                op = next(o for o in ops if o["method"] == m and o["path"] == p)
                declared = set(op["op"].get("responses", {}).keys())
                attr, mname = where[0]
                fn = s.methods(s.tag_clients()[attr])[mname]
                kw = s.probe_kwargs(fn)
                bodyish = [n for n in kw if s._is_body_like(n)]
                for n in bodyish[1:]:
                    kw.pop(n, None)
                sample_statuses = sorted({int(c) for c in declared if c.isdigit() and not 200 <= int(c) <= 299} | {101, 302, 400, 404, 418, 500, 503})
                plan = [(st_, "object") for st_ in statuses] + [(st_, shape) for st_ in sample_statuses for shape in BODY_SHAPES if shape != "object"]
                for status, shape in plan:
                    s.responder = lambda request, status=status, shape=shape: _response(httpx, status, shape)
                    out = s.call(fn, kw)
                    if not out.requests and isinstance(out.exc, TypeError):
                        break  # cannot drive this method with probe arguments (C04 judges argument typing)
                    ev += 1
                    is_declared = str(status) in declared or "default" in declared
                    if is_declared:
                        nt += 1
                    dk = "declared" if str(status) in declared else ("default_declared" if "default" in declared else "undeclared")
                    e = out.exc
                    v = None
                    if e is None:
                        v = Violation(("returned_value", _range(status), dk, transport), f"{m} {p} status={status}: returned {out.value!r} / items={out.items!r}"[:500])
                    elif not isinstance(e, HTTPError):
                        v = Violation(("raised_non_http_error", type(e).__name__, _range(status), dk, transport), f"{m} {p} status={status}: {e!r}"[:500])
                    elif getattr(e, "status_code", None) != status:
                        v = Violation(("wrong_status_code", _range(status), dk, transport), f"{m} {p} status={status}: exception carries {getattr(e, 'status_code', None)!r}")
                    elif not (isinstance(getattr(e, "response", None), httpx.Response) and e.response.status_code == status):
                        v = Violation(("response_not_carried", _range(status), dk, transport), f"{m} {p} status={status}: .response={getattr(e, 'response', None)!r}")
                    elif 400 <= status <= 499 and not isinstance(e, ClientError):
                        v = Violation(("4xx_not_client_error", dk, transport), f"{m} {p} status={status}: raised {type(e).__name__}")
                    elif 500 <= status <= 599 and not isinstance(e, ServerError):
                        v = Violation(("5xx_not_server_error", dk, transport), f"{m} {p} status={status}: raised {type(e).__name__}")
                    if v is not None and shape != "object":
                        v = Violation(v.sig + ("body_" + shape,), v.detail + f" body_shape={shape}")
                    if v is not None and v.sig not in viols:
                        viols[v.sig] = v
    return list(viols.values()), ev, nt


def evaluate(case: dict) -> list[Violation]:
    res = genrun.generate({**case, "cfg": {**case["cfg"], "prefix": genrun.unique_prefix()}})
    try:
        if not res.ok or genrun.compile_all(res):
            return []
        try:
            return check(res, case)[0]
        except (ImportError, SyntaxError, NameError):
            return []
    finally:
        genrun.cleanup(res)


def shards(tier: str, seed: int) -> list[dict]:
    n_sh, per = (16, 40) if tier == "quick" else (48, 400)
    return [{"seed": seed * 1000 + i, "n": per} for i in range(n_sh)]


def run_shard(shard: dict) -> dict:
    col = Collector()
    gate = specgen.Gate(domain.excluded("C01", "C03", "C06", "C07"))
    cases = hyp.draw_cases(specgen.cases(gate, max_schemas=3, max_ops=3, min_ops=1), shard["n"], shard["seed"])
    col.excluded.update(gate.excluded)
    for case in cases:
        res = genrun.generate({**case, "cfg": {**case["cfg"], "prefix": genrun.unique_prefix()}})
        try:
            if not res.ok:
                col.rejected += 1
                continue
            if genrun.compile_all(res):
                col.classes["skipped_c01_compile"] += 1
                continue
            try:
                viols, ev, nt = check(res, case)
            except (ImportError, SyntaxError, NameError):
                col.classes["skipped_c01_import"] += 1
                continue
            col.bulk(ev, nt, {"packages": 1, "calls": ev}, sample={"spec_paths": case["spec"].get("paths"), "statuses": "100..199,300..599", "transports": ["bundled", "custom"]})
            for v in viols:
                col.add_violation(v, case)
        finally:
            genrun.cleanup(res)
    col.exhaustive = None
    col.extra["status_axis_exhaustive"] = True
    return col.to_dict()
