"""C03 — model JSON round-trip preserves every value and wire key.

Case   : {"spec", "cfg", "docs": {schema name: [conforming JSON documents]}}  (docs drawn by pbt/refmodel/instances.py from
         the OpenAPI meaning of the schema, independently of the generator)
Oracle : with the GENERATED package's own core:  unstructure_to_dict(structure_from_dict(doc, Model)) == doc, modulo
         "an absent optional property may reappear as null or, if array-/map-valued, as an empty container"; date-times
         compare as (instant, offset); floats by value.  Unions are left to C14 (not generated here).
"""

from __future__ import annotations

import json
import re

from .. import genrun, hyp, specgen
from ..refmodel import instances as I
from ..runner import Collector, Violation, load_known_findings

PROPERTY_ID = "C03"
LEVEL = "exploration"
RULE = (
    "case = (constructed OpenAPI document in the C01-clean, union-free domain, layout, up to 8 conforming JSON documents per "
    "named schema: all required keys + random subsets of optional keys, nullable nulls, every supported string format, "
    "camelCase/snake_case/kebab/keyword-like property names, nested objects/lists/maps). Non-trivial = a document with nesting "
    "depth >= 2 or a formatted or renamed (non-identifier / keyword / camelCase) key. distinct = distinct (schema, document)."
)
ASSUMPTIONS = [
    "byte/binary values are canonical base64 text (raw octets cannot appear in JSON)",
    "only packages that import are evaluated (C01's listed triggers are excluded by construction and counted)",
    "schemas with an unsatisfiable required self-reference are skipped (no finite instance exists)",
    "oneOf/anyOf-typed schemas and fields are not generated here (C14 owns them)",
]
MIN_NONTRIVIAL = {"quick": 2000, "thorough": 20000}

UNION_FEATURES = {"union", "disc_union", "inline_union", "resp_inline_union"}
# `default`: the statement does not say whether an absent optional property may come back as its declared default; not generated
DOMAIN_EXCLUDED = UNION_FEATURES | {"default_value", "colliding_schema_names"}


def valid_case(case: dict) -> bool:
    if not specgen.valid_case(case):
        return False
    schemas = (case["spec"].get("components") or {}).get("schemas") or {}
    for name, dlist in (case.get("docs") or {}).items():
        if name not in schemas or not isinstance(dlist, list):
            return False
        for d in dlist:
            if d is None or not I.conforms(d, schemas[name], schemas):
                return False
    return True


def excluded_features(prop: str = "C03") -> set[str]:
    out = set(DOMAIN_EXCLUDED)
    for p in {"C01", "C02", "C03", prop}:
        for k in load_known_findings(p):
            if k.get("status") == "open":
                out.update(k.get("exclude_features", []))
    return out


def model_class(models_mod, name: str):
    from pyopenapi_gen.core.utils import NameSanitizer  # lookup convenience only; a miss falls back to a fuzzy match

    cand = NameSanitizer.sanitize_class_name(name)
    if hasattr(models_mod, cand):
        return getattr(models_mod, cand)
    want = re.sub(r"[^0-9a-z]", "", name.lower())
    for n in getattr(models_mod, "__all__", []):
        if re.sub(r"[^0-9a-z]", "", n.lower()) == want:
            return getattr(models_mod, n)
    return None


def _nesting(doc, d=0) -> int:
    if isinstance(doc, dict):
        return max([_nesting(v, d + 1) for v in doc.values()] + [d + 1])
    if isinstance(doc, list):
        return max([_nesting(v, d + 1) for v in doc] + [d + 1])
    return d


def _interesting_key(k: str) -> bool:
    import keyword

    return (not k.isidentifier()) or keyword.iskeyword(k) or k != k.lower() or k in ("id", "type", "self", "data")


def nontrivial_doc(doc, node, schemas) -> bool:
    if _nesting(doc) >= 2:
        return True
    f = I.flatten(node, schemas)
    if f and isinstance(doc, dict):
        for k in doc:
            if _interesting_key(k):
                return True
            if I.resolve(f["properties"].get(k, {}), schemas).get("format"):
                return True
    return False


def _edge_variants(doc):
    """Container-of-containers documents with an EMPTY first inner container followed by a non-empty one (still conforming)."""
    if isinstance(doc, list) and any(isinstance(x, list) and x for x in doc) and not (doc and doc[0] == []):
        return [[[]] + doc]
    if isinstance(doc, dict) and doc and all(isinstance(x, list) for x in doc.values()) and any(doc.values()):
        return [{"aa_empty_first": [], **doc}]
    return []


def roundtrip_violations(res: genrun.GenResult, spec: dict, docs: dict) -> tuple[list[Violation], int, int, list[str]]:
    """Returns (violations, evaluations, nontrivial count, labels)."""
    schemas = (spec.get("components") or {}).get("schemas") or {}
    viols: list[Violation] = []
    ev = nt = 0
    labs: list[str] = []
    with genrun.load_package(res):
        models = genrun.import_module_of(res, "models")
        conv = genrun.core_module_of(res, "cattrs_converter")
        for name, dlist in docs.items():
            node = schemas[name]
            cls = model_class(models, name)
            if cls is None:
                viols.append(Violation(("model_missing", I.describe(node, schemas)), f"no model for schema {name!r} in {getattr(models, '__all__', None)}"))
                continue
            for doc in dlist:
                ev += 1
                if nontrivial_doc(doc, node, schemas):
                    nt += 1
                labs.append("schema_" + I.kind_of(node, schemas))
                try:
                    inst = conv.structure_from_dict(doc, cls)
                except RecursionError as e:
                    viols.append(Violation(("structure_raised", "RecursionError", I.describe(node, schemas)), f"{name}: {e!r} doc={json.dumps(doc)[:300]}"))
                    continue
                except Exception as e:
                    viols.append(Violation(("structure_raised", type(e).__name__, _culprit(str(e), node, schemas)), f"{name}: {str(e)[:500]} doc={json.dumps(doc)[:400]}"))
                    continue
                try:
                    back = conv.unstructure_to_dict(inst)
                    back = json.loads(json.dumps(back))
                except Exception as e:
                    viols.append(Violation(("unstructure_raised", type(e).__name__, I.describe(node, schemas)), f"{name}: {str(e)[:400]} inst={inst!r}"[:900]))
                    continue
                d = I.diff(doc, back, node, schemas)
                if d:
                    kind = d[d.rfind("{"):] if "{" in d else ""
                    what = "key lost" if "key lost" in d else ("unexpected key" if "unexpected key" in d else "value changed")
                    viols.append(Violation(("roundtrip_differs", what, kind), f"{name}: {d} doc={json.dumps(doc)[:400]} back={json.dumps(back)[:400]}"))
    return viols, ev, nt, labs


def _culprit(msg: str, node, schemas) -> str:
    """Schema kind of the field the converter names in its error message (best effort, for bucketing only)."""
    m = re.search(r"^- ([\w\[\]\.]+):", msg, re.M)
    f = I.flatten(node, schemas)
    if m and f:
        field = m.group(1).split(".")[0].split("[")[0]
        for k, p in f["properties"].items():
            if re.sub(r"[^0-9a-z]", "", k.lower()) == re.sub(r"[^0-9a-z]", "", field.lower()):
                return I.describe(p, schemas)
    return I.describe(node, schemas)


def evaluate(case: dict) -> list[Violation]:
    res = genrun.generate({**case, "cfg": {**case["cfg"], "prefix": genrun.unique_prefix()}})
    try:
        if not res.ok:
            return []
        if genrun.compile_all(res):
            return []  # C01's business
        try:
            v, _, _, _ = roundtrip_violations(res, case["spec"], case["docs"])
        except ImportError:
            return []
        return v
    finally:
        genrun.cleanup(res)


def case_strategy(gate: specgen.Gate, docs_per_schema: int = 8):
    from hypothesis import strategies as st

    @st.composite
    def cases(draw):
        spec = draw(specgen.specs(gate, max_ops=2, min_ops=0))
        cfg = draw(specgen.configs(gate))
        schemas = (spec.get("components") or {}).get("schemas") or {}
        docs = {}
        for name, node in schemas.items():
            if not I.satisfiable({"$ref": "#/components/schemas/" + name}, schemas):
                continue
            docs[name] = draw(st.lists(I.instances(node, schemas).filter(lambda d, node=node: d is not None and I.conforms(d, node, schemas)), min_size=1, max_size=docs_per_schema))
            rn = I.resolve(node, schemas)
            if rn.get("type") == "array" or ("additionalProperties" in rn and not rn.get("properties")):
                docs[name] = [v for d in docs[name] for v in _edge_variants(d)] + docs[name]
        # models whose root is a container are decoded/encoded FIRST, i.e. before any hook for their element types exists in the
        # package's converter (the per-case package is fresh): laws must not depend on what was converted earlier
        order = sorted(docs, key=lambda n: 0 if I.resolve(schemas[n], schemas).get("type") == "array" or "additionalProperties" in I.resolve(schemas[n], schemas) else 1)
        return {"spec": spec, "cfg": cfg, "docs": {n: docs[n] for n in order}}

    return cases()


def shards(tier: str, seed: int) -> list[dict]:
    n_sh, per = (16, 220) if tier == "quick" else (48, 800)
    return [{"seed": seed * 1000 + i, "n": per} for i in range(n_sh)]


def run_shard(shard: dict) -> dict:
    from .. import runner

    col = Collector()
    gate = specgen.Gate(excluded_features())
    cases = hyp.draw_cases(case_strategy(gate), shard["n"], shard["seed"])
    col.excluded.update(gate.excluded)
    for i, case in enumerate(cases):
        res = genrun.generate({**case, "cfg": {**case["cfg"], "prefix": genrun.unique_prefix()}})
        try:
            if not res.ok:
                col.rejected += 1
                continue
            if genrun.compile_all(res):
                col.classes["skipped_c01_compile"] += 1
                continue
            try:
                viols, ev, nt, labs = roundtrip_violations(res, case["spec"], case["docs"])
            except (ImportError, SyntaxError, TypeError, NameError, AttributeError) as e:
                col.classes["skipped_c01_import"] += 1
                col.extra.setdefault("import_skips", [])
                if len(col.extra["import_skips"]) < 3:
                    col.extra["import_skips"].append(f"{type(e).__name__}: {e}"[:200])
                continue
            # account every (schema, doc) pair as one evaluation
            for name, dlist in case["docs"].items():
                node = ((case["spec"].get("components") or {}).get("schemas") or {})[name]
                for doc in dlist:
                    col.record({"schema": name, "doc": doc}, [], nontrivial_doc(doc, node, (case["spec"].get("components") or {}).get("schemas") or {}),
                               ["schema_" + I.kind_of(node, (case["spec"].get("components") or {}).get("schemas") or {})],
                               sample={"schema": name, "node": node, "doc": doc}, key=[name, node, doc])
            for v in viols:
                col.add_violation(v, case)
        finally:
            genrun.cleanup(res)
        if i % 50 == 0:
            runner.truncate_generator_logs()
    return col.to_dict()
