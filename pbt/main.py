"""./check entry point: python -m pbt.main <Cxx> <quick|thorough|replay> [--replay path]"""

from __future__ import annotations

import glob
import importlib
import json
import os
import sys
import time
import traceback

from . import runner
from .runner import Collector, Violation, canon, chash, eprint


def _load_case(path: str) -> dict:
    with open(path) as f:
        d = json.load(f)
    return d


def _evaluate(mod, case) -> list[Violation]:
    return list(mod.evaluate(case))


def _write_replay(prop: str, bucket: dict, shrunk_case) -> str:
    d = os.path.join(runner.VERIF, "replay", "shrunk")
    os.makedirs(d, exist_ok=True)
    path = os.path.join(d, f"{prop}-{chash(bucket['sig'])}.json")
    with open(path, "w") as f:
        json.dump(
            {"property": prop, "sig": bucket["sig"], "detail": bucket["detail"], "count": bucket["count"], "case": shrunk_case},
            f, indent=1, sort_keys=True, default=repr,
        )
        f.write("\n")
    return os.path.relpath(path, runner.VERIF)


def main(argv: list[str]) -> int:
    if len(argv) < 2:
        eprint("usage: check <Cxx> <quick|thorough|replay> [--replay path]")
        return 2
    prop, mode = argv[0].upper(), argv[1]
    replay_path = None
    if "--replay" in argv:
        replay_path = argv[argv.index("--replay") + 1]
    seed = int(os.environ.get("VERIF_SEED", "1") or "1")
    t0 = time.time()
    try:
        mod = importlib.import_module(f"pbt.props.{prop.lower()}")
    except Exception:
        eprint(traceback.format_exc())
        return 2

    runner.make_scratch_root(prop)
    try:
        runner.worker_scratch("-main")
        if mode == "replay":
            if not replay_path:
                eprint("replay needs --replay <path>")
                return 2
            p = replay_path if os.path.isabs(replay_path) else os.path.join(runner.VERIF, replay_path)
            doc = _load_case(p)
            case = doc["case"] if isinstance(doc, dict) and "case" in doc else doc
            viols = _evaluate(mod, case)
            for v in viols:
                print(f"  bucket {list(v.sig)}: {v.detail[:500]}")
            if viols:
                print(f"VIOLATION property={prop} replay={replay_path}")
                return 1
            print(f"replay of {replay_path}: property {prop} holds on this case")
            return 0
        if mode not in ("quick", "thorough"):
            eprint(f"unknown mode {mode}")
            return 2
        return _run_tier(mod, prop, mode, seed, t0)
    except Exception:
        eprint("HARNESS ERROR\n" + traceback.format_exc())
        return 2
    finally:
        runner.cleanup_scratch()


def _run_tier(mod, prop: str, tier: str, seed: int, t0: float) -> int:
    known = runner.load_known_findings(prop)
    open_findings = [k for k in known if k.get("status") == "open"]
    fixed_findings = [k for k in known if k.get("status") == "fixed"]
    known_lines: list[str] = []
    violation_lines: list[str] = []
    harness_errors: list[str] = []

    col = Collector()

    # ---- 1. replay tier: witnesses of listed findings, regression inputs -------------------
    dirty = os.environ.get("VERIF_DIRTY") == "1"

    def matches_open(sig: list, from_campaign: bool = False) -> dict | None:
        for k in open_findings:
            if from_campaign and k.get("exclude_features") and not dirty:
                # campaign cases are built with this finding's trigger excluded by construction: a campaign bucket with
                # the same signature is therefore a DIFFERENT violation and must be reported
                continue
            pats = k.get("signatures") or [k["signature"]]
            if any(runner.sig_matches(p, sig) for p in pats):
                return k
        return None

    reported_known: set[str] = set()
    replay_buckets: dict[str, dict] = {}

    def replay_file(path: str, expect: dict | None) -> None:
        rel = os.path.relpath(path, runner.VERIF)
        try:
            doc = _load_case(path)
            case = doc["case"] if isinstance(doc, dict) and "case" in doc else doc
            viols = _evaluate(mod, case)
        except Exception:
            harness_errors.append(f"replay of {rel} crashed:\n{traceback.format_exc()}")
            return
        for v in viols:
            k = None
            if expect is not None and any(runner.sig_matches(p, list(v.sig)) for p in (expect.get("signatures") or [expect.get("signature")])):
                k = expect  # the witness of a finding is attributed to that finding first
            if k is None:
                k = matches_open(list(v.sig))
            if k is not None:
                if k["id"] not in reported_known:
                    reported_known.add(k["id"])
                    known_lines.append(f"KNOWN-FINDING: property={prop} {k['id']} {k['what']}")
            else:
                key = canon(list(v.sig))
                if key not in replay_buckets:
                    replay_buckets[key] = {"sig": list(v.sig), "detail": v.detail, "count": 1, "case": case, "path": rel}

    for k in open_findings:
        w = k.get("witness")
        if w:
            replay_file(os.path.join(runner.VERIF, w), k)
    for k in fixed_findings:
        w = k.get("witness")
        if w and os.path.exists(os.path.join(runner.VERIF, w)):
            replay_file(os.path.join(runner.VERIF, w), None)
    for path in sorted(glob.glob(os.path.join(runner.VERIF, "replay", "regress", f"{prop}-*.json"))):
        replay_file(path, None)
    n_replayed = len(open_findings) + len(fixed_findings) + len(glob.glob(os.path.join(runner.VERIF, "replay", "regress", f"{prop}-*.json")))

    for b in replay_buckets.values():
        violation_lines.append(f"VIOLATION property={prop} replay={b['path']}")
        eprint(f"  unlisted violation in replay file {b['path']}: {b['sig']}: {b['detail'][:600]}")

    # ---- 2. campaign ----------------------------------------------------------------------
    shards = mod.shards(tier, seed)
    c2, errs = runner.run_shards(mod.__name__, shards)
    col.merge_dict(c2.to_dict())
    harness_errors.extend(errs)

    # ---- 3. attribute / minimise buckets -----------------------------------------------------
    shrink_budget = 90.0 if tier == "quick" else 300.0
    unknown = []
    for key in sorted(col.violations):
        b = col.violations[key]
        k = matches_open(b["sig"], from_campaign=True)
        if k is not None:
            if k["id"] not in reported_known:
                reported_known.add(k["id"])
                known_lines.append(f"KNOWN-FINDING: property={prop} {k['id']} {k['what']}")
            continue
        unknown.append(b)
    if unknown:
        if getattr(mod, "SHRINK", True) and os.environ.get("VERIF_NO_SHRINK") != "1":  # VERIF_NO_SHRINK: diagnostics (keep the drawn case)
            try:
                shrunk = runner.shrink_buckets(mod.__name__, unknown, shrink_budget)
            except Exception:
                eprint("  shrink failed:\n" + traceback.format_exc())
                shrunk = [{"case": b["case"], "reproduced": False} for b in unknown]
        else:
            shrunk = [{"case": b["case"], "reproduced": True} for b in unknown]
        for b, sres in zip(unknown, shrunk):
            if not sres.get("reproduced"):
                eprint(f"  note: bucket {b['sig']} did not reproduce through evaluate() ({sres.get('error', 'no violation on replay')}); unshrunk case kept")
            path = _write_replay(prop, b, sres["case"])
            violation_lines.append(f"VIOLATION property={prop} replay={path}")
            eprint(f"  bucket {b['sig']} x{b['count']}: {b['detail'][:800]}")

    # ---- 4. evidence + verdict --------------------------------------------------------------
    level = getattr(mod, "LEVEL", "exploration")
    extra = {"replayed_files": n_replayed, "shards": len(shards)}
    if hasattr(mod, "coverage_extra"):
        try:
            extra.update(mod.coverage_extra(tier, seed, col))
        except Exception:
            harness_errors.append(traceback.format_exc())
    if col.evaluations == 0:
        harness_errors.append("campaign produced no evaluations")
    min_nt = getattr(mod, "MIN_NONTRIVIAL", {}).get(tier, 2)
    if col.n_nontrivial < max(2, min_nt):
        harness_errors.append(
            f"vacuous run: only {col.n_nontrivial} distinct non-trivial cases (< {max(2, min_nt)}); generator needs fixing"
        )
    wall = time.time() - t0
    if col.evaluations > 0 and col.n_nontrivial >= 2:
        runner.write_evidence(
            prop, tier, seed, level, col, getattr(mod, "RULE", ""), list(getattr(mod, "ASSUMPTIONS", [])), wall,
            len(violation_lines), sorted(reported_known), extra,
        )
    violation_lines = list(dict.fromkeys(violation_lines))  # one line per replay file
    for line in known_lines:
        print(line)
    print(
        f"[{prop} {tier} seed={seed}] evaluations={col.evaluations} distinct_nontrivial={col.n_nontrivial} "
        f"buckets={len(col.violations)} known={len(reported_known)} violations={len(violation_lines)} wall={wall:.1f}s"
    )
    if violation_lines:
        for line in violation_lines:
            print(line)
        return 1
    if harness_errors:
        for e in harness_errors:
            eprint("HARNESS ERROR: " + e)
        return 2
    return 0


if __name__ == "__main__":
    sys.exit(main(sys.argv[1:]))
