#!/bin/bash
# MANIFEST.setup_cmd — offline; builds nothing but makes sure the Python deps the checks need are importable.
set -u
cd "$(dirname "${BASH_SOURCE[0]}")"
PY=/venv/bin/python
WH=/opt/veriftools/wheels
if ! $PY -c "import hypothesis" 2>/dev/null; then
  /venv/bin/pip install --no-index --find-links "$WH" hypothesis || { echo "setup: cannot install hypothesis" >&2; exit 1; }
fi
mkdir -p .deps
if ! PYTHONPATH=.deps $PY -c "import atheris" 2>/dev/null; then
  /venv/bin/pip install --no-index --find-links "$WH" --target .deps atheris >/dev/null 2>&1 || echo "setup: atheris unavailable (fuzz tier of thorough checks will be skipped)" >&2
fi
$PY -c "import hypothesis, httpx, cattrs, yaml; print('setup ok: hypothesis', hypothesis.__version__)" || exit 1
exit 0
