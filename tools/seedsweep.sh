#!/bin/bash
# tools/seedsweep.sh [seed ids...]  -- run every seeded change against the check of its property (and optional extra checks)
# in a scratch worktree of /repo HEAD under /dev/shm (VERIF_REPO points there; /repo itself is not touched).
# Writes seeded/RESULTS.json: {seed id: {check: CAUGHT|MISSED|NOAPPLY}}.
set -u
cd /verif
ids=("$@"); [ ${#ids[@]} -eq 0 ] && ids=($(ls seeded | grep -E '^C[0-9]+-[A-Z]$'))
WT=/dev/shm/mut/sweep-$$; mkdir -p /dev/shm/mut
git -C /repo worktree add --detach "$WT" HEAD -f >/dev/null 2>&1 || { echo "cannot create worktree"; exit 3; }
trap 'git -C /repo worktree remove --force "$WT" >/dev/null 2>&1; rm -rf "$WT"' EXIT
declare -A EXTRA=( [C01-B]="C11" [C03-A]="C14" [C05-C]="C14" [C01-D]="C11" [C02-D]="C01" [C05-F]="C14" [C06-G]="C11" )
[ -n "${SWEEP_EXTRA:-}" ] && for id in "${ids[@]}"; do EXTRA[$id]="${EXTRA[$id]:-} $SWEEP_EXTRA"; done
OUT=/dev/shm/mut/sweep-$$.jsonl; : > $OUT
for id in "${ids[@]}"; do
  prop=${id%%-*}
  git -C "$WT" checkout -q -- . ; git -C "$WT" clean -qfd
  if ! git -C "$WT" apply "/verif/seeded/$id/patch.diff" 2>/dev/null; then printf '%s\t%s\tNOAPPLY\t\n' "$id" "$prop" >> $OUT; echo "$id NOAPPLY"; continue; fi
  for chk in $prop ${EXTRA[$id]:-}; do
    VERIF_REPO="$WT" VERIF_EVIDENCE_DIR=/dev/shm/mut/sweep-ev-$$ timeout 3000 ./check $chk quick > /dev/shm/mut/sweep-$$.log 2>&1; rc=$?
    v=MISSED; [ $rc -eq 1 ] && v=CAUGHT; [ $rc -ge 2 ] && v="HARNESS_rc$rc"
    sig=$(grep -E "^  bucket" /dev/shm/mut/sweep-$$.log | head -1 | cut -c1-160 | tr -d '\\"' | tr '\t' ' ')
    printf '%s\t%s\t%s\t%s\n' "$id" "$chk" "$v" "$sig" >> $OUT
    echo "$id $chk $v"
  done
done
/venv/bin/python - "$OUT" <<'PY'
import json,sys
rows=[dict(zip(("seed","check","verdict","first_bucket"), (l.rstrip("\n").split("\t")+["",""])[:4])) for l in open(sys.argv[1]) if l.strip()]
import os
res=json.load(open(""+os.environ.get("SWEEP_RESULTS","/verif/seeded/RESULTS.json")+"")) if os.path.exists(""+os.environ.get("SWEEP_RESULTS","/verif/seeded/RESULTS.json")+"") else {}
for r in rows: res.pop(r["seed"],None)
for r in rows: res.setdefault(r["seed"],{})[r["check"]]={"verdict":r["verdict"],"first_bucket":r.get("first_bucket","")}
json.dump(res,open(""+os.environ.get("SWEEP_RESULTS","/verif/seeded/RESULTS.json")+"","w"),indent=1,sort_keys=True)
print("written seeded/RESULTS.json", len(res))
PY
rm -rf /dev/shm/mut/sweep-ev-$$ /dev/shm/mut/sweep-$$.log $OUT
