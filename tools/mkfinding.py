#!/venv/bin/python
"""tools/mkfinding.py <prop> <finding id> <case.json | -> '<what>' [--features a,b] [--status open]
Evaluates the witness against /repo, records the signatures it produces, stores it under replay/findings/ and
appends the entry to known_findings.json (a committed file; checks never write it)."""
import json, os, sys, importlib, subprocess
sys.path.insert(0, os.path.dirname(os.path.dirname(os.path.abspath(__file__))))
sys.path.insert(0, "/repo/src")
os.environ.setdefault("PYTHONHASHSEED", "0")
from pbt import runner

prop, fid, casefile, what = sys.argv[1:5]
feats = []
status = "open"
extra = {}
a = sys.argv[5:]
while a:
    if a[0] == "--features": feats = a[1].split(","); a = a[2:]
    elif a[0] == "--status": status = a[1]; a = a[2:]
    elif a[0] == "--commit": extra["commit"] = a[1]; a = a[2:]
    elif a[0] == "--sigs": extra["signatures"] = json.loads(a[1]); a = a[2:]
    else: raise SystemExit("bad arg " + a[0])
doc = json.load(sys.stdin if casefile == "-" else open(casefile))
case = doc["case"] if "case" in doc and "spec" not in doc else doc
runner.make_scratch_root("mkfinding"); runner.worker_scratch()
mod = importlib.import_module(f"pbt.props.{prop.lower()}")
try:
    viols = mod.evaluate(case)
finally:
    runner.cleanup_scratch()
sigs = sorted({tuple(v.sig) for v in viols})
print("signatures produced now:", sigs)
for v in viols[:3]:
    print("   ", v.detail[-300:].replace("\n", " | "))
if status == "open" and not sigs:
    raise SystemExit("witness does not fail: not recorded")
w = f"replay/findings/{fid}.json"
json.dump({"property": prop, "case": case}, open(os.path.join(runner.VERIF, w), "w"), indent=1, ensure_ascii=False)
kfp = os.path.join(runner.VERIF, "known_findings.json")
kf = json.load(open(kfp))
kf["findings"] = [f for f in kf["findings"] if f["id"] != fid]
entry = {"property": prop, "id": fid, "status": status, "what": what, "witness": w,
         "signatures": extra.get("signatures") or [list(s) for s in sigs], "exclude_features": feats}
if "commit" in extra:
    entry["commit"] = extra["commit"]
    entry["fixed_line"] = f"fixed: property={prop} {extra['commit']} {what}"
kf["findings"].append(entry)
json.dump(kf, open(kfp, "w"), indent=1, ensure_ascii=False)
print("recorded", fid, status)
