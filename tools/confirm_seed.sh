#!/bin/bash
# tools/confirm_seed.sh <src dir with patch.diff + demo_*.py + meta.json> <seed id e.g. C18-A> <property>
# Confirms in a scratch worktree (outside /repo and /verif): demo passes without the change, fails with it,
# pinned test suite still passes with it. On success copies into /verif/seeded/<id>/ and records what was run.
set -u
SRC="$1"; ID="$2"; PROP="$3"
WT=/dev/shm/mut/confirm-$$
git -C /repo worktree add --detach "$WT" HEAD -f >/dev/null 2>&1 || { echo "cannot create worktree"; exit 3; }
cleanup() { git -C /repo worktree remove --force "$WT" >/dev/null 2>&1; rm -rf "$WT"; }
trap cleanup EXIT
DEMO=$(ls "$SRC"/demo*.py | head -1)
export TMPDIR=/dev/shm/mut/tmp-$$; mkdir -p $TMPDIR
PYTHONPATH="$WT/src" /venv/bin/python "$DEMO" "$WT" >/dev/null 2>&1; rc_clean=$?
git -C "$WT" apply "$SRC/patch.diff" || { echo "$ID: patch does not apply to current HEAD"; rm -rf $TMPDIR; exit 3; }
PYTHONPATH="$WT/src" /venv/bin/python "$DEMO" "$WT" >/dev/null 2>&1; rc_mut=$?
base=$(/verif/tools/baseline.py "$WT" 2>&1 | head -1)
rm -rf $TMPDIR
echo "$ID: demo clean rc=$rc_clean, with change rc=$rc_mut, suite: $base"
if [ $rc_clean -eq 0 ] && [ $rc_mut -ne 0 ] && echo "$base" | grep -q "stable_now_not_passing=0"; then
  D=/verif/seeded/$ID; mkdir -p $D
  cp "$SRC/patch.diff" $D/patch.diff; cp "$DEMO" $D/; 
  /venv/bin/python - "$SRC/meta.json" "$D/meta.json" "$PROP" "$rc_clean" "$rc_mut" "$base" "$(git -C /repo rev-parse --short HEAD)" <<'PY'
import json,sys
src,dst,prop,rc0,rc1,base,head=sys.argv[1:]
try: m=json.load(open(src))
except Exception: m={}
out={"property":prop,"breaks":m.get("summary",""),"needs_to_manifest":m.get("needs_to_manifest",""),"files_changed":m.get("files_changed",[]),
"origin":"independent sub-agent given only the property text and a scratch worktree",
"confirmed":{"at_repo_head":head,"demo_without_change_rc":int(rc0),"demo_with_change_rc":int(rc1),"pinned_suite_with_change":base,
"how":"tools/confirm_seed.sh: scratch git worktree of /repo HEAD under /dev/shm, demo run before/after `git apply patch.diff`, tools/baseline.py (pytest, compared with BASELINE.json stable_pass) with the change applied; worktree removed afterwards"}}
json.dump(out,open(dst,"w"),indent=1)
PY
  echo "$ID: CONFIRMED -> $D"
else
  echo "$ID: NOT confirmed"
fi
