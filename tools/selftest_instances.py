#!/venv/bin/python
"""tools/selftest_instances.py [n_cases] — the harness's notion of "conforming document" checked against an independent validator.

For documents drawn from pbt/specgen.py, every instance produced by pbt/refmodel/instances.py for every named schema must be
run through conforms() (the filter the checks apply; depth cut-offs of recursive schemas yield placeholders it rejects) and through
openapi_schema_validator.OAS30Validator (jsonschema with the OpenAPI 3.0 dialect). A document that conforms() accepts and the
validator rejects makes the run fail (exit 1); documents conforms() rejects although valid only cost coverage and are counted. Not a property check: a self-test of the oracle material used by C03, C05 and C14.
"""
import json, os, sys
sys.path.insert(0, os.path.dirname(os.path.dirname(os.path.abspath(__file__))))
sys.path.insert(0, os.environ.get("VERIF_REPO", "/repo") + "/src")
import warnings
warnings.simplefilter("ignore")
from hypothesis import strategies as st
from openapi_schema_validator import OAS30Validator
from referencing import Registry, Resource
from referencing.jsonschema import DRAFT4
from pbt import hyp, specgen
from pbt.refmodel import instances as inst

n = int(sys.argv[1]) if len(sys.argv) > 1 else 150
from pbt import domain
gate = specgen.Gate(domain.excluded("C01", "C03", "C05"))  # the domain the checks draw from
bad = checked = accepted = overstrict = skipped = oneof_lax = 0
for ci, case in enumerate(hyp.draw_cases(specgen.cases(gate, max_schemas=5, max_ops=1, min_ops=1), n, 4242)):
    spec = case["spec"]
    schemas = (spec.get("components") or {}).get("schemas") or {}
    registry = Registry().with_resource("urn:doc", Resource(contents=spec, specification=DRAFT4))
    for name, node in schemas.items():
        if not inst.satisfiable(node, schemas):
            continue
        docs = hyp.draw_cases(inst.instances(node, schemas), 4, ci * 1000 + len(name))
        v = OAS30Validator({"$ref": "urn:doc#/components/schemas/" + name.replace("~", "~0").replace("/", "~1")}, registry=registry)
        for d in docs:
            checked += 1
            ok_h = inst.conforms(d, node, schemas)
            try:
                errs = [e.message for e in v.iter_errors(d)]
            except RecursionError:  # schema that refers to itself without an intervening property (validator limitation)
                skipped += 1
                continue
            if ok_h:
                accepted += 1
            if ok_h and errs and all("is valid under each of" in e for e in errs):
                # oneOf exclusivity: instances()/conforms() treat oneOf like anyOf.  C03/C05 draw from the union-free domain and
                # C14 constructs unions whose variants have distinguishing required fields, so exclusivity is never relied on.
                oneof_lax += 1
                continue
            if ok_h and errs:  # unsound: the harness would feed a non-conforming document to C03/C05/C14
                bad += 1
                if bad <= 5:
                    print("UNSOUND schema", name, json.dumps(node)[:300], "doc", json.dumps(d)[:300], "jsonschema:", errs[:2])
            if not ok_h and not errs:
                overstrict += 1
print(f"selftest_instances: cases={n} instances_checked={checked} accepted_by_conforms={accepted} accepted_but_invalid={bad} rejected_but_valid={overstrict} validator_recursion_skipped={skipped} oneof_exclusivity_not_modelled={oneof_lax}")
sys.exit(1 if bad else 0)
