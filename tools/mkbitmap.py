#!/venv/bin/python
"""tools/mkbitmap.py <C02|C08>: records, for the COMPLETE quick strata of pbt/graphs.py, which enumerated graphs violate the
property on the current tree (one bit per graph index, per stratum/profile/order), into known/<prop>_bitmap.json.
That file is committed and is the exact identification of the known finding 'cyclic graphs'; checks never write it."""
import base64, itertools, json, os, sys, zlib
from multiprocessing import get_context
sys.path.insert(0, os.path.dirname(os.path.dirname(os.path.abspath(__file__))))
sys.path.insert(0, "/repo/src")
os.environ.setdefault("PYTHONHASHSEED", "0")
from pbt import graphs

prop = sys.argv[1].upper()


def work(job):
    stname, n, max_edges, p, o = job
    from pbt import runner
    runner.worker_scratch()
    import importlib
    mod = importlib.import_module(f"pbt.props.{prop.lower()}")
    opts = graphs.schema_options(n, max_edges)
    total = len(opts) ** n
    order = list(itertools.permutations(range(n)))[o]
    names = graphs.PROFILES[p][:n]
    bits = bytearray((total + 7) // 8)
    sigs = {}
    stats = {"fail": 0, "fail_acyclic": 0, "fail_benign_selfloop_only": 0, "cyclic": 0}
    for g in range(total):
        graph = graphs.graph_at(n, max_edges, g, opts)
        viols = mod.evaluate_graph(graph, names, order)
        cyc = graphs.is_cyclic(graph)
        stats["cyclic"] += cyc
        if viols:
            bits[g >> 3] |= 1 << (g & 7)
            stats["fail"] += 1
            if not cyc:
                stats["fail_acyclic"] += 1
            elif graphs.only_benign_self_loops(graph):
                stats["fail_benign_selfloop_only"] += 1
            for v in viols:
                k = json.dumps(list(v.sig))
                sigs[k] = sigs.get(k, 0) + 1
    return f"{stname}/{p}/{o}", base64.b64encode(zlib.compress(bytes(bits), 9)).decode(), total, stats, sigs


if __name__ == "__main__":
    from pbt import runner
    runner.make_scratch_root("bitmap")
    jobs = []
    for st in graphs.strata("quick"):
        n = st["n"]
        for p in range(len(graphs.PROFILES)):
            for o in range(len(list(itertools.permutations(range(n))))):
                jobs.append((st["name"], n, st["max_edges"], p, o))
    out = {"property": prop, "family": "pbt/graphs.py strata n2e2 + n3e1, KINDS=" + ",".join(graphs.KINDS), "strata": {}, "totals": {}, "stats": {}, "signatures": {}}
    with get_context("spawn").Pool(16) as pool:
        for key, b64, total, stats, sigs in pool.imap(work, jobs):
            out["strata"][key] = b64
            out["totals"][key] = total
            out["stats"][key] = stats
            for k, v in sigs.items():
                out["signatures"][k] = out["signatures"].get(k, 0) + v
    runner.cleanup_scratch()
    agg = {}
    for s in out["stats"].values():
        for k, v in s.items():
            agg[k] = agg.get(k, 0) + v
    out["aggregate"] = agg
    json.dump(out, open(os.path.join(runner.VERIF, "known", f"{prop}_bitmap.json"), "w"), indent=0, sort_keys=True)
    print(prop, "aggregate:", agg)
    print("signatures:", out["signatures"])
