#!/venv/bin/python
"""Runs the repository's pinned test suite (guard OFF) in a given tree and compares with BASELINE.json stable_pass.
usage: tools/baseline.py [repo_dir]   -> exit 0 iff every stable_pass test passed."""
import json, os, subprocess, sys, tempfile, xml.etree.ElementTree as ET

repo = sys.argv[1] if len(sys.argv) > 1 else "/repo"
base = json.load(open("/root/.vp/BASELINE.json"))
stable = set(base["stable_pass"])
d = tempfile.mkdtemp(prefix="baseline-", dir="/dev/shm" if os.path.isdir("/dev/shm") else None)
xml = os.path.join(d, "junit.xml")
env = dict(os.environ)
env.pop("PYOPENAPI_GEN_VERIF", None)
env["PYTHONPATH"] = os.path.join(repo, "src")
env["TMPDIR"] = d
extra = sys.argv[2:]
r = subprocess.run(["/venv/bin/python", "-m", "pytest", "-q", "-p", "no:cacheprovider", "--timeout=900",
                    "--continue-on-collection-errors", "-n", "8", f"--junitxml={xml}", *extra], cwd=repo, env=env,
                   stdout=subprocess.PIPE, stderr=subprocess.STDOUT, text=True)
if not os.path.exists(xml):
    r = subprocess.run(["/venv/bin/python", "-m", "pytest", "-q", "-p", "no:cacheprovider", "--timeout=900",
                        "--continue-on-collection-errors", f"--junitxml={xml}", *extra], cwd=repo, env=env,
                       stdout=subprocess.PIPE, stderr=subprocess.STDOUT, text=True)
passed = set()
for tc in ET.parse(xml).getroot().iter("testcase"):
    if not any(ch.tag in ("failure", "error", "skipped") for ch in tc):
        passed.add(f"{tc.get('classname')}::{tc.get('name')}")
missing = sorted(stable - passed)
print(f"passed={len(passed)} stable_pass={len(stable)} stable_now_not_passing={len(missing)}")
for m in missing[:40]:
    print("  NOT PASSING:", m)
import shutil; shutil.rmtree(d, ignore_errors=True)
sys.exit(0 if not missing else 1)
