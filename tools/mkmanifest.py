#!/venv/bin/python
"""Regenerates /verif/MANIFEST.json from the table below and validates it against the schema."""
import json
import os
import sys

HERE = os.path.dirname(os.path.dirname(os.path.abspath(__file__)))

CHECKS = {
    "C01": dict(
        category="exploration",
        technique="Hypothesis-constructed OpenAPI documents x layouts/naming/format through the real generate_client; compile() of every file + fresh-interpreter import (generator blocked at the meta path) + __all__/star-import resolution; collect->bucket by root cause->validity-preserving ddmin",
        text="Thousands of constructed specs (schema graphs with refs/allOf/oneOf/anyOf/maps/enums/nullable/formats, operations with "
             "parameters in every location, bodies, several responses) x package depth 1..3 x embedded/shared core x 3 naming strategies "
             "x JSON/YAML are generated and loaded in a fresh interpreter that has only httpx+cattrs. 14 root causes found so far: 7 "
             "repaired (fix: commits), the rest listed as known findings whose triggers are excluded by construction and counted, so "
             "that any violation on the remaining domain is reported as new. Search over a bounded size (<=5 schemas, <=4 operations).",
        note="Defects that only show in the presence of an excluded trigger are masked until that finding is fixed; post-processing off; sizes bounded; rejections (generate_client raises) are not violations.",
        design="§5 C01",
    ),
    "C18": dict(
        category="exploration",
        technique="exhaustive chunking enumeration (streams <= 13 bytes) + Hypothesis event models with adversarial/random chunkings; metamorphic (split == unsplit) and reference-parser oracles",
        text="All 2^(n-1) chunkings of ~75 short SSE/NDJSON/byte streams are enumerated and tens of thousands of generated "
             "event models (LF/CRLF/CR, multi-line data, comments, empty data, non-ASCII) are split adversarially (inside "
             "UTF-8 sequences, between CR and LF, one byte per chunk, empty chunks); every helper's items must equal those "
             "of the unsplit stream and an independent reference reader. Search, not proof: long streams are sampled.",
        note="Trusts httpx's incremental text/line decoders as installed; reference oracle restricted to payloads without exotic str.splitlines() separators and without leading whitespace; exhaustive only for streams <= 13 bytes.",
        design="§5 C18",
    ),
    "C02": dict(
        category="exploration",
        technique="bounded exhaustive enumeration of all small schema graphs (9 edge kinds incl. allOf with cross-member required; N=2 with <=2 edges, N=3 with <=1 edge; all declaration orders; 3 name profiles = 1 068 486 documents) through load_ir_from_spec, compared with an independent reference resolver; known-failing cyclic graphs identified exactly by a committed bitmap; Hypothesis specs through generate_client for the emitted dataclasses",
        text="Every enumerated graph is loaded and each named schema's property key set, required set and coarse property kinds are "
             "compared with a ~40-line reference resolver. The strata are complete (exhaustive:true); 777 520 graphs - all with a "
             "reference cycle other than a direct/array self-loop - fail on the pinned tree and are listed bit-exactly in "
             "known/C02_bitmap.json, so any graph that starts failing (or any acyclic failure) is reported. Part (b) checks emitted "
             "dataclasses (one model per schema, one field per property bound to the original key, required <=> no default).",
        note="Small scope (N<=3); coarse kinds; the N=3/<=2-edge stratum is only sampled in thorough and attributed by signature (cyclic vs. acyclic) rather than by bitmap.",
        design="§5 C02",
    ),
    "C03": dict(
        category="exploration",
        technique="Hypothesis-constructed specs through generate_client, in-process import of the generated package, conforming JSON instances drawn from an independent schema-semantics model (pbt/refmodel/instances.py), round-trip through the package's OWN converter, comparison modulo the stated tolerance; root-cause bucketing + validity-preserving ddmin",
        text="About 20 000 (schema, document) pairs per quick run: every named schema of every generated package is fed conforming "
             "documents (required + optional subsets, nullable nulls, all string formats, nested lists/maps/objects, keyword-like and "
             "colliding property names) and unstructure(structure(doc)) must equal doc. Found 8 root causes so far (3 repaired, 5 open "
             "and excluded by construction with counts).",
        note="Union-typed schemas/fields belong to C14; `default` values are not generated (the statement does not say whether an absent optional may come back as its default); defects behind an excluded trigger are masked until that finding is fixed.",
        design="§5 C03",
    ),
    "C04": dict(
        category="exploration",
        technique="Hypothesis-constructed operations + argument assignments (every subset of <=3 optional parameters; values per parameter schema incl. reserved/non-ASCII characters, arrays with repeated/aliased elements; conforming JSON/form/multipart/raw bodies) driven through the generated client over the bundled HttpxTransport; the captured httpx.Request is compared with an independent wire model",
        text="About 3 500 calls per quick run: exactly one request, method, decoded path, decoded query multimap under ORIGINAL "
             "names, header and cookie parameters, nothing unsupplied present, body media type and content. Arguments are matched to "
             "spec parameters by normalised name, and methods to operations by the request they issue, so no generator naming rule "
             "is trusted; same-named parameters: every injective argument assignment is tried; stray cookies/headers (unset parameters, "
             "cookies of an earlier call on the same client) are violations. 3 root causes repaired (cookie parameters never sent; "
             "parameters deriving to one identifier; enum members in query arrays), 5 open findings excluded by construction.",
        note="Path values avoid '/', '?', '#', '%' and dot segments; date-time path parameters, `default` values and union-typed bodies are outside the domain (ambiguous statement / C14); null members of JSON bodies may be omitted.",
        design="§5 C04",
    ),
    "C05": dict(
        category="exploration",
        technique="Hypothesis-constructed operations x every declared 2xx status x declared media type x conforming bodies (JSON documents from the independent schema model, text, bytes, 0..4 JSON events for streams) answered by an in-memory server; oracle on the returned value: instance of the annotated return type, re-serialisation equals the body (C03 relation), None / text / bytes / ordered stream items",
        text="About 2 200 (operation, status, media, body) cases per quick run. 3 root causes repaired (missing import on secondary/"
             "multi-media branches, text/plain parsed as JSON, plus the default-with-content fix shared with C06); 6 open findings "
             "(ndjson, same-typed multi-media, formatted primitives, unconstrained schema, digit-leading operationId, colliding "
             "synthesised response names) are excluded by construction with counts; the secondary-2xx finding is attributed by "
             "signature so that primary responses of multi-2xx operations stay explored.",
        note="Unions belong to C14; stream payloads are one JSON object per event; the return annotation is obtained with typing.get_type_hints; masked: defects that need an excluded trigger.",
        design="§5 C05",
    ),
    "C06": dict(
        category="exploration",
        technique="generated operations x EVERY status 100..199 and 300..599 (exhaustive axis) x {bundled HttpxTransport over MockTransport, custom transport returning responses unraised}; oracle on the raised exception's class, status_code and response",
        text="~640 000 calls per quick run: each behaviourally discovered method is called for all 400 non-2xx statuses on both "
             "transport kinds; it must raise the package's HTTPError carrying that status and response, ClientError for 4xx and "
             "ServerError for 5xx. Two root causes found and repaired (base HTTPError for 4xx/5xx; `default` with content returning a value); one open finding (a schema named like a status exception alias shadows it) excluded by construction, error payloads with such names stay in the domain.",
        note="Error bodies are small JSON objects in the sweep (other body shapes: thorough tier); operations come from the C01/C03/C07-clean domain.",
        design="§5 C06",
    ),
    "C07": dict(
        category="exploration",
        technique="Hypothesis-constructed operation sets (tag none/one/several/spelling variants, operationId absent/duplicated after sanitisation/suffix-colliding/FastAPI-style/hostile, 3 naming strategies, JSON / YAML / YAML with integer status keys) through generate_client; BEHAVIOURAL oracle: every public method of every tag client reachable from APIClient is called against an in-memory server and attributed to the operation whose request it issues; counts compared with the document",
        text="Operations in vs. methods out are counted per tag group for ~1 500 generated documents per quick run: an operation "
             "reached by fewer methods than it has tag groups is silently dropped, by more is duplicated. Attribution is by the "
             "request actually issued, so no naming rule is trusted. Naming-strategy clauses are asserted only where the "
             "documentation is unambiguous (unique snake_case ids kept verbatim; `path` names start with the HTTP method).",
        note="A package that cannot be compiled/imported in this C01-clean domain is reported (every operation unreachable); the same document file generated again in-process with another naming strategy must match a first generation with it; a package in which some method cannot be driven to a request with probe arguments is counted as undecided, not as a violation; tag groups compared by lower-cased alphanumeric content.",
        design="§5 C07",
    ),
    "C08": dict(
        category="exploration",
        technique="same exhaustive graph strata + depth grid (4 chain kinds x PYOPENAPI_MAX_DEPTH in {5,10,50,150} x lengths around and far beyond the limit, differential against an unlimited run) + Hypothesis multigraphs; enter/exit wrapped from the harness; invariants on the tracker's rest state, terminal states, declared names, RecursionError and a deterministic termination budget",
        text="For every document the cycle tracker must be at rest (depth 0, empty stack) after each top-level schema, every state "
             "terminal, every declared name present, no RecursionError, and the number of enter events below 200*(size)^2. The depth "
             "limit must cut exactly when the unlimited run's tracker depth exceeds it, and schemas parsed after a deep one must be "
             "unaffected. 38 032 enumerated cyclic graphs leave a schema in state not_started (known finding, exact bitmap). "
             "Small cyclic multigraphs must also load with the depth limit switched off (cycle detection, not the limit, has to cut "
             "them; finding C08-F03 excluded by a structural trigger), and whole documents whose operations contain rejected "
             "sub-schemas must leave the tracker at rest and later operations intact. Depth grid: 9 chain kinds incl. top-level container and composition chains, linear event budget, and a load aborted by the limit although it succeeds with the limit off is a violation.",
        note="Termination is an event budget, not a proof; surplus (clamped) exit events are not observable state and are not reported; interpreter recursion limit 1000.",
        design="§5 C08",
    ),
    "C09": dict(
        category="exploration",
        technique="Hypothesis-constructed specs (cyclic graphs and discriminated unions included) generated in 4 child interpreters differing in PYTHONHASHSEED, warm-up history, project root and patched wall clock, manifests (relative path -> sha256) compared; in-process histories generate(force);generate(no force) with full-tree snapshots and generate;mutate(edit client/model/models __init__/core file, delete endpoint module);generate(no force)",
        text="800 documents per quick run, each generated 4+3 times (layouts include a sibling core named <client>_core; schema pairs differing only in letter case; one child generates the batch in reverse order, one generates a kind-swapped twin of every case immediately before it). Any byte difference between the child runs, any id()-derived name "
             "or absolute path in the output, any touched file or failure in the no-op re-run and any mutation that the non-force run "
             "reports as up to date is a violation. 4 root causes found and repaired (shared-core re-run always 'Differences found', "
             "deleted file unnoticed, suffix-colliding operationIds differing between force and diff path, hash-seed dependent order "
             "of auto-added path arguments).",
        note="Package name equal across runs (paths compared relative to the project root); post-processing off in quick; 4 hash seeds per case, so a seed-specific ordering that coincides on all 4 is missed.",
        design="§5 C09",
    ),
    "C10": dict(
        category="fault_enumeration",
        technique="enumerated fault points (none, each of 10 generation stages failed by wrapping the callable from the harness, every k-th file write aborted through a sys.addaudithook on open()) x force on/off x existing tree absent/equal/client file edited/partial/core file edited x 6 layouts (incl. sibling core <client>_core) x 3 documents; oracle = recursive before/after snapshot (path, size, sha256, mtime_ns) of a sandbox project root seeded with sentinel files + audit log of write/remove/rename/mkdir events under the root",
        text="~2 500 fault cases per quick run (every 3rd write index), all write indices in thorough (exhaustive over the fault axis). "
             "Without force over an existing package the tree must be byte- and mtime-identical and no write/remove event may occur "
             "under the project root in any outcome; in every mode each touched path must lie inside the output package, the core "
             "package or be a new ancestor __init__.py.",
        note="Faults are exceptions raised at the fault point (no process kill, no torn writes); temp dir and debug logs are redirected outside the project root; post-processing only as an injected stage.",
        design="§5 C10",
    ),
    "C11": dict(
        category="exploration",
        technique="generated histories (2..7 generate_client steps over 3 client packages x 7 documents with different error-status sets x force on/off; shared-core depth 1..4 or a core named <client a>_core, client depth 1..3 per history), invariant checked after EVERY step in a fresh child interpreter: every client generated so far and the shared core import completely",
        text="480 histories per quick run (~2 000 steps, each followed by a fresh-interpreter import of all clients). A step that makes "
             "another client's import fail (typically a status-specific exception class vanishing from the shared core) is a violation; "
             "histories shrink step-wise. One root cause found and repaired (registry bypassed for cores nested >= 3 packages deep).",
        note="Histories are lists of steps drawn by Hypothesis (equivalent to a one-rule state machine) and minimised by ddmin; 7 fixed documents; a raising step is an outcome.",
        design="§5 C11",
    ),
    "C12": dict(
        category="exploration",
        technique="Hypothesis-constructed specs x core layouts x history (fresh project / shared core holding drifted runtime files) through generate_client; AST scan of every import node of every emitted file (module level, nested, TYPE_CHECKING) against an allow-list (relative imports may not climb above the top-level package); fresh child interpreter with the generator blocked at the meta path running an exercise script (round-trips, get_mapping(), every client method); byte comparison of the copied runtime files",
        text="~850 packages per quick run. Every import statement of every emitted file must name the standard library, httpx, cattrs, "
             "the output package or its core; the package is imported and exercised where `pyopenapi_gen` cannot be imported, so a "
             "generator import hidden in a function body of a rarely emitted template is executed; the 8 runtime files must equal "
             "the generator's own, also when a shared core already contained drifted copies (appended line, whitespace-only change, "
             "re-indented statement). One open finding (guarded `import black` "
             "in the copied utils.py) is matched by its exact signature.",
        note="Exercise arguments are generic; decoding problems during the exercise are ignored (C03), only missing modules count; documentation examples inside docstrings are not imports.",
        design="§5 C12",
    ),
    "C13": dict(
        category="exploration",
        technique="Hypothesis-constructed operation sets (multi-tag, tag spelling variants, overloaded multi-content, streaming, hostile parameter names) through generate_client; introspection oracle on the imported classes (method sets, inspect.signature incl. resolved annotations, coroutine/async-generator nature, typing.get_overloads, runtime_checkable isinstance, NotImplementedError from every mock method, MockAPIClient tag properties)",
        text="~1 400 generated packages per quick run; for every tag client reachable from APIClient its Protocol and its mock are "
             "compared member by member and every mock method is awaited/iterated once. Two root causes found and repaired (mocks "
             "grouped by raw first tag; mocks resolved types against an empty schema table); one open finding (no 2xx + stream payload on an error response) excluded by construction.",
        note="Annotation equality is by repr of the resolved hint; Protocol stubs for streaming operations may be plain functions returning AsyncIterator; packages outside the C01/C03/C07-clean domain are not generated.",
        design="§5 C13",
    ),
    "C14": dict(
        category="exploration",
        technique="dedicated Hypothesis union strategy (2..4 variants; object variants with disjoint/overlapping/nested/all-optional/identical field sets, scalars, arrays, maps, nullable; discriminator none/explicit/implicit/partial; all variant orders; tricky variant names; distinguishing required fields under camelCase/kebab/@-prefixed/acronym/reserved-word wire names) through generate_client; payloads conforming to a chosen variant decoded through the alias, a holder field and an array; round-trip equality against the variant's own schema + class / error checks for discriminated unions",
        text="~17 000 (union, place, payload) decodings per quick run. A payload generated from variant i must re-encode to itself "
             "(no key dropped by matching another variant); with an explicit mapping the class must be the mapped one, an unmapped "
             "value must be rejected and a mapped-but-undecodable payload must raise. One root cause repaired (mapping imported "
             "variants under wrong module/class names), 3 open findings (first-match ambiguity, discriminator without mapping "
             "ignored, coercing scalar/container variants) excluded by construction with counts.",
        note="Clean domain: without a usable discriminator every object variant has a distinguishing required field and at most one non-object variant is present; unions nested inside unions are not generated.",
        design="§5 C14",
    ),
    "C15": dict(
        category="exploration",
        technique="complete position x payload x placement matrix (33 text-bearing positions of a template document x 50 hostile payloads mid-text, 24 edge-sensitive payloads also alone / at the start / at the end / on their own line / inside a long wrapped text; thorough: all 50 x 6 placements: quotes, triple quotes, backslash sequences, every Unicode line separator, NUL, bidi/astral characters, expression-injection strings, code-looking lines such as 'async def f(self):' and '@overload') plus Hypothesis text() payloads, through generate_client; oracle = every emitted file parses, the AST skeleton (literals, docstrings and position-derived identifiers masked) equals the benign-payload baseline as a multiset, and semantic literals (enum values, wire names, mapping keys, defaults) evaluate/are sent as exactly the spec string",
        text="5 610 matrix cases + 400 Hypothesis cases (random text and token concatenations, random placement) per quick run; the matrix is complete for the listed positions and payloads. "
             "A payload may only change string constants, comments and (for name positions) the derived identifiers; the request observed "
             "at a mock transport must carry the raw parameter name. 9 root causes were found and repaired in three fix commits "
             "(unescaped string literals, docstrings closed by triple quotes or a trailing quote, comments ended by CR/U+2028, NUL, surrogate-pair defaults, enum members dropped by Enum).",
        note="One template document; a position not in the list (e.g. server URLs, example values, externalDocs) is not exercised. A visible rejection of a hostile name is accepted. Wording of docstrings/comments is not asserted.",
        design="§5 C15",
    ),
    "C16": dict(
        category="exploration",
        technique="Hypothesis-built dataclass type trees (make_dataclass, random bijective Meta key maps) x conforming JSON; round-trip laws both directions, differential against a fresh copy of the module (history independence), corrupted-leaf error reporting, serialiser on generated instance graphs (chain/self-loop/ring/diamond/random; two annotation styles) against an independent reference; rings of 1..3 mutually referencing mapped dataclass types decoded first thing in a fresh converter copy; a parent/child class pair (back pointer, List, Dict, List[Dict]) for the serialiser",
        text="Each case is a history of up to 5 differently shaped, possibly same-named dataclass types run through one fresh copy of "
             "the working tree's cattrs_converter.py/utils.py; every result must satisfy decode.encode = id, encode.decode = id, equal "
             "the result of a module copy that has seen nothing else, and failures must be ValueErrors naming a field on the path. The "
             "serialiser must terminate and return null-free JSON on cyclic instance graphs. Random search, sizes bounded (depth <= 4).",
        note="Unions are left to C14; floats finite; key maps bijective; only the two module files of the working tree are exercised (C12 ties them to every client). One open finding (C16-F01) is matched by its exact signature (annotation style included).",
        design="§5 C16",
    ),
    "C17": dict(
        category="exploration",
        technique="exhaustive enumeration of ordered plugin selections (<=3 of 11) x header-overlap x params/cookies presence, plus Hypothesis cases (nested CompositeAuth, case variants, request histories on one transport); dict-algebra reference model of the wire request",
        text="Every request that leaves HttpxTransport (observed at httpx.MockTransport) is compared with a 40-line reference model: "
             "defaults < per-request headers < plugin contributions in composition order (case-insensitive names, later wins, exactly "
             "one value per name, no unexpected names), API key in exactly the configured location/name, caller query/cookies/body "
             "unchanged, OAuth2 refresh once per request with the refreshed token kept for the next request (rotating callback), no mutation of caller dicts or of the defaults across a history of requests.",
        note="Caller params/cookies are dicts (as generated clients pass them); names/values from token-safe alphabets; a caller name equal to an API-key name is never generated (the property does not say who wins); httpx encoding trusted.",
        design="§5 C17",
    ),
    "C19": dict(
        category="exploration",
        technique="metamorphic: every constructed document is generated as JSON, YAML block, YAML flow, YAML with unquoted integer status keys and fully quoted YAML (identical file hashes required) and with all mapping keys shuffled / components.schemas, paths, methods and properties permuted (equal normalised package manifest computed from the ASTs of the emitted files: models->fields/annotations/defaults/wire keys, enums->members, aliases->targets, clients->method signatures; union members sorted)",
        text="480 documents x 7 generations per quick run. Style-only re-renderings must be byte-identical; reorderings may only change "
             "the order of declarations. 4 open findings (primary request content type, numbering of anonymous array item models, "
             "primary response of operations without 2xx, duplicate emission of renamed schemas - all depend on key order) are excluded by construction; the integer-status-key "
             "defect found here was repaired under C07.",
        note="Documents with reference cycles or colliding/derivation-sensitive names are outside the domain (C02-F01, C20); permutations are a pure function of the case's perm_seed; 2 permutations per document.",
        design="§5 C19",
    ),
    "C20": dict(
        category="exploration",
        technique="(a) exhaustive enumeration of all strings of length <=4 over an 18-character alphabet through every name-derivation function with a call site, plus Hypothesis Unicode text and keyword spellings; validity predicate oracle (non-empty, isidentifier, not keyword). (b) raw names that are distinct but collide after derivation, placed in one namespace (properties of a schema, parameters of an operation - also split between path item and operation, and on a multi-content operation -, component schemas, values of an enum, operations of a tag, also when they meet there only through their second tag) of a real document: all pairs and triples of a 15-name collision cluster, all pairs of 25 keyword-like spellings, Hypothesis-built clusters (12 spelling styles x 12 suffixes incl. the suffixes de-collision itself hands out); through generate_client + import; oracle = semantic identity of every name (decode/encode round trip per property, parameter values observed on the wire, class per schema and reference targets, enum member values, reachability of every operation by a method of its own)",
        text="Totality/validity is decided exhaustively for short strings (111 151 strings x 5 derivation functions) and sampled for "
             "long Unicode strings; collision-safety is decided on ~3 600 generated packages per quick run by checking that every raw "
             "name keeps an identity of its own in the imported package. 2 open findings (schemas with equal derived class name are "
             "merged; letter-less schema names shadowed by a module) are excluded by construction with counts; colliding "
             "parameter names were repaired. Search with an exhaustive small scope, not a proof.",
        note="Derivation functions without call sites are not checked; strings longer than 4 are sampled; part (b) covers the five namespaces the property lists, with integer properties/parameters only; tag attributes are covered by C07.",
        design="§5 C20",
    ),
}

ALL = [f"C{i:02d}" for i in range(1, 21)]


def main() -> int:
    checks = []
    for pid in ALL:
        if pid not in CHECKS:
            continue
        c = CHECKS[pid]
        checks.append(
            {
                "property_id": pid,
                "quick_cmd": f"./check {pid} quick",
                "thorough_cmd": f"./check {pid} thorough",
                "evidence_file": f"evidence/{pid}.json",
                "replay_cmd_template": f"./check {pid} replay --replay {{path}}",
                "engine": "pbt",
                "level_claimed": {"category": c["category"], "text": c["text"], "design_ref": c["design"]},
                "level_note": c["note"],
                "technique": c["technique"],
            }
        )
    na = [
        {"property_id": pid, "reason": "check not built yet in this round (work in progress; the technique applies, see DESIGN.md §5)"}
        for pid in ALL
        if pid not in CHECKS
    ]
    man = {
        "version": 1,
        "setup_cmd": "./setup.sh",
        "hooks": {
            "guard": "PYOPENAPI_GEN_VERIF",
            "enable": "no source hooks: the harness wraps module attributes / class methods at run time (./check exports PYOPENAPI_GEN_VERIF=1 for uniformity)",
            "baseline_off_cmd": "cd /repo && /venv/bin/python -m pytest -ra -q -p no:cacheprovider --timeout=900 --continue-on-collection-errors",
            "source_commits": [],
            "add_only": True,
        },
        "engines": [
            {
                "name": "pbt",
                "path": "pbt/",
                "serves_properties": [c["property_id"] for c in checks],
                "kind_free_text": "Hypothesis strategies + bounded exhaustive enumeration + fault/schedule injection, collect->bucket->ddmin runner (pbt/runner.py, pbt/main.py), one module per property under pbt/props/",
            }
        ],
        "checks": checks,
        "not_applicable": na,
        "notes": "All checks: ./check <id> <quick|thorough|replay>. Exit 0 held / only listed known findings (KNOWN-FINDING lines), 1 + VIOLATION line, 2 harness error. Known findings: known_findings.json.",
    }
    path = os.path.join(HERE, "MANIFEST.json")
    with open(path, "w") as f:
        json.dump(man, f, indent=1)
        f.write("\n")
    try:
        import jsonschema

        schema = json.load(open("/root/.vp/MANIFEST.schema.json"))
        jsonschema.validate(man, schema)
        print("MANIFEST.json valid;", len(checks), "checks,", len(na), "not_applicable")
    except ImportError:
        print("jsonschema not importable; skipped validation")
    return 0


if __name__ == "__main__":
    sys.exit(main())
