#!/bin/bash
# tools/seedtest.sh <patch.diff> <Cxx> [tier]  -- apply a seeded change to /repo, run the check, undo. Prints verdict.
set -u
PATCH="$1"; PROP="$2"; TIER="${3:-quick}"
cd /verif
if ! git -C /repo diff --quiet; then echo "seedtest: /repo dirty, refusing"; exit 3; fi
git -C /repo apply "$PATCH" || { echo "seedtest: patch does not apply"; exit 3; }
trap "git -C /repo checkout -- ." EXIT
timeout 3000 ./check "$PROP" "$TIER" > /dev/shm/seedtest.$$.out 2>&1; rc=$?
git -C /repo checkout -- .
grep -E "^VIOLATION|^KNOWN|^\[|HARNESS" /dev/shm/seedtest.$$.out | head -12
grep -E "^  bucket" /dev/shm/seedtest.$$.out | cut -c1-260 | head -8
rm -f /dev/shm/seedtest.$$.out
echo "seedtest $PROP $(basename $(dirname $PATCH)) rc=$rc $([ $rc -eq 1 ] && echo CAUGHT || echo MISSED)"
